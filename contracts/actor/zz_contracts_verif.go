//go:build verif

// Contracts for package actor, checked by /verif/hv (comment-only file;
// compiled only with the build tag "verif", contains no code).

package actor

// ---------------------------------------------------------------------------
// Effect log: what the engine does to the outside, as ghost events appended by
// boundary calls (user code, interface methods, trusted engine entry points).

//@ event Broadcast(e Ref, msg Iface)
//@ event ProcStart(proc Iface)
//@ event RegAdd(r Ref, id Str, proc Iface)
//@ event ProcSend(proc Iface, target Ref, msg Iface, sender Ref)

// pidof(proc): the PID a Processer answers with. Processer.PID() is assumed
// to be a stable function of the processer value (every implementation in the
// repository returns a field written once at construction).
//@ ghost func pidof(Iface) Ref as *PID

//@ func (Processer).PID()
//@   abstract
//@   pure
//@   ensures result == pidof(self) && result != nil

//@ func (Processer).Start()
//@   abstract
//@   modifies heap except private
//@   emits ProcStart(self)

//@ func (Processer).Send(target, msg, sender)
//@   abstract
//@   modifies heap except private
//@   emits ProcSend(self, target, msg, sender)

// Boundary of the remote package: handing a decoded message to the local
// engine. Trusted here (assumed: returns normally, writes nothing the stream
// reader reads again); its own behaviour is the subject of C01/C09.
//@ func (*Engine).SendLocal(pid, msg, sender)
//@   trusted
//@   modifies

// Publishing an event: one Broadcast entry in the effect log (the routing of
// the event to the stream actor is C09/C12).
//@ func (*Engine).BroadcastEvent(msg)
//@   trusted
//@   modifies
//@   emits Broadcast(e, msg)

// ---------------------------------------------------------------------------
// Registry (C10): a map id -> Processer under one RWMutex. old(...) in a
// clause of a function that takes r.mu refers to the state at the moment the
// lock was acquired: every critical section is one atomic transition of the
// abstract map.

//@ private H$actor.Registry, H$actor.process, H$actor.Context, H$actor.Inbox, H$actor.Engine, H$actor.PID

//@ guarded Registry(r) by mu footprint r.lookup, mapof(r.lookup)
//@ lockinv[C10.inv] r.lookup != nil

//@ func (*Registry).add(proc)
//@   props C10
//@   requires r != nil && r.engine != nil && !isnil(proc)
//@   atunlock[C10.add.dup-untouched] old(has(r.lookup, pidof(proc).ID)) ==> forallS("Str", id, has(r.lookup, id) == old(has(r.lookup, id)) && r.lookup[id] == old(r.lookup[id]))
//@   atunlock[C10.add.insert-dom] !old(has(r.lookup, pidof(proc).ID)) ==> forallS("Str", id, has(r.lookup, id) == (old(has(r.lookup, id)) || id == pidof(proc).ID))
//@   atunlock[C10.add.insert-val] !old(has(r.lookup, pidof(proc).ID)) ==> r.lookup[pidof(proc).ID] == proc
//@   atunlock[C10.add.insert-kept] !old(has(r.lookup, pidof(proc).ID)) ==> forallS("Str", id, id != pidof(proc).ID ==> r.lookup[id] == old(r.lookup[id]))
//@   ghost at mapupdate#1: emit RegAdd(r, key, value)
//@   atunlock[C10.add.regadd-iff] (old(has(r.lookup, pidof(proc).ID)) ==> loglen == entry(loglen)) && (!old(has(r.lookup, pidof(proc).ID)) ==> loglen == entry(loglen) + 1 && log[entry(loglen)] == RegAdd(r, pidof(proc).ID, proc))
//@   ensures[C10.add.dup-event] old(has(r.lookup, pidof(proc).ID)) ==> loglen == entry(loglen) + 1 && log[entry(loglen)] == Broadcast(r.engine, ActorDuplicateIdEvent{PID: pidof(proc)})
//@   ensures[C10.add.winner-started] !old(has(r.lookup, pidof(proc).ID)) ==> loglen == entry(loglen) + 2 && log[entry(loglen)] == RegAdd(r, pidof(proc).ID, proc) && log[entry(loglen) + 1] == ProcStart(proc)

//@ func (*Registry).Remove(pid)
//@   props C10
//@   requires r != nil && pid != nil
//@   atunlock[C10.remove.only] forallS("Str", id, has(r.lookup, id) == (old(has(r.lookup, id)) && id != pid.ID))
//@   atunlock[C10.remove.kept] forallS("Str", id, r.lookup[id] == old(r.lookup[id]))

//@ func (*Registry).get(pid)
//@   props C10
//@   requires r != nil
//@   ensures[C10.get.nil] pid == nil ==> isnil(result)
//@   ensures[C10.get.hit] pid != nil && old(has(r.lookup, pid.ID)) ==> result == old(r.lookup[pid.ID])
//@   ensures[C10.get.miss] pid != nil && !old(has(r.lookup, pid.ID)) ==> isnil(result)

//@ func (*Registry).getByID(id)
//@   props C10
//@   requires r != nil
//@   ensures[C10.getbyid.hit] old(has(r.lookup, id)) ==> result == old(r.lookup[id])
//@   ensures[C10.getbyid.miss] !old(has(r.lookup, id)) ==> isnil(result)

//@ func (*Registry).GetPID(kind, id)
//@   props C10
//@   requires r != nil
//@   ghost at call getByID#1 before: assert[C10.getpid.key] arg1 == kind + pidSeparator + id
//@   ghost at call getByID#1: got = result
//@   ensures[C10.getpid.hit] !isnil(got) ==> result == pidof(got)
//@   ensures[C10.getpid.miss] isnil(got) ==> result == nil

//@ func (*Context).GetPID(id)
//@   props C10
//@   requires c != nil && c.engine != nil && c.engine.Registry != nil
//@   ghost at call getByID#1 before: assert[C10.ctx-getpid.key] arg1 == id && arg0 == c.engine.Registry
//@   ghost at call getByID#1: got = result
//@   ensures[C10.ctx-getpid.hit] !isnil(got) ==> result == pidof(got)
//@   ensures[C10.ctx-getpid.miss] isnil(got) ==> result == nil

// SpawnProc: exactly the effect of Registry.add (register-or-report), then the
// PID of the processer that was handed in.
//@ func (*Engine).SpawnProc(p)
//@   props C10
//@   requires e != nil && e.Registry != nil && e.Registry.engine != nil && !isnil(p)
//@   ghost at call add#1 before: assert[C10.spawnproc.add] arg0 == e.Registry && arg1 == p
//@   ensures[C10.spawnproc.pid] result == pidof(p)
//@   ensures[C10.spawnproc.effects] (loglen == entry(loglen) + 2 && log[entry(loglen)] == RegAdd(e.Registry, pidof(p).ID, p) && log[entry(loglen) + 1] == ProcStart(p)) || (loglen == entry(loglen) + 1 && log[entry(loglen)] == Broadcast(e.Registry.engine, ActorDuplicateIdEvent{PID: pidof(p)}))
