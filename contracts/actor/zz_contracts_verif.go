//go:build verif

// Contracts for package actor, checked by /verif/hv (comment-only file;
// compiled only with the build tag "verif", contains no code).

package actor

// ---------------------------------------------------------------------------
// Effect log: what the engine does to the outside, as ghost events appended by
// boundary calls (user code, interface methods, trusted engine entry points).

//@ event Broadcast(e Ref, msg Iface)
//@ event ProcStart(proc Iface)
//@ event RegAdd(r Ref, id Str, proc Iface)
//@ event ProcSend(proc Iface, target Ref, msg Iface, sender Ref)

// pidof(proc): the PID a Processer answers with. Processer.PID() is assumed
// to be a stable function of the processer value (every implementation in the
// repository returns a field written once at construction).
//@ ghost func pidof(Iface) Ref as *PID

//@ func (Processer).PID()
//@   abstract
//@   pure
//@   ensures result == pidof(self) && result != nil

//@ func (Processer).Start()
//@   abstract
//@   modifies heap except private
//@   emits ProcStart(self)

//@ func (Processer).Send(target, msg, sender)
//@   abstract
//@   modifies
//@   emits ProcSend(self, target, msg, sender)


// Publishing an event: one Broadcast entry in the effect log (the routing of
// the event to the stream actor is C09/C12).
//@ func (e *Engine).BroadcastEvent(msg)
//@   trusted
//@   modifies
//@   emits Broadcast(e, msg)

// ---------------------------------------------------------------------------
// Registry (C10): a map id -> Processer under one RWMutex. old(...) in a
// clause of a function that takes r.mu refers to the state at the moment the
// lock was acquired: every critical section is one atomic transition of the
// abstract map.

//@ private H$actor.Registry, H$actor.process, H$actor.Context, H$actor.Inbox, H$actor.Engine, H$actor.PID, H$actor.Response, E$S$actor.Envelope, E$Ref

//@ guarded Registry(r) by mu footprint r.lookup, mapof(r.lookup)
//@ lockinv[C10.inv] r.lookup != nil

//@ func (r *Registry).add(proc)
//@   props C10 C04
//@   requires r != nil && r.engine != nil && !isnil(proc)
//@   modifies heap except private, mapof(r.lookup), log, loglen
//@   atunlock[C10.add.dup-untouched] old(has(r.lookup, pidof(proc).ID)) ==> forallS("Str", id, has(r.lookup, id) == old(has(r.lookup, id)) && r.lookup[id] == old(r.lookup[id]))
//@   atunlock[C10.add.insert-dom] !old(has(r.lookup, pidof(proc).ID)) ==> forallS("Str", id, has(r.lookup, id) == (old(has(r.lookup, id)) || id == pidof(proc).ID))
//@   atunlock[C10.add.insert-val] !old(has(r.lookup, pidof(proc).ID)) ==> r.lookup[pidof(proc).ID] == proc
//@   atunlock[C10.add.insert-kept] !old(has(r.lookup, pidof(proc).ID)) ==> forallS("Str", id, id != pidof(proc).ID ==> r.lookup[id] == old(r.lookup[id]))
//@   ghost at mapupdate#1: emit RegAdd(r, key, value)
//@   atunlock[C10.add.regadd-iff] (old(has(r.lookup, pidof(proc).ID)) ==> loglen == entry(loglen)) && (!old(has(r.lookup, pidof(proc).ID)) ==> loglen == entry(loglen) + 1 && log[entry(loglen)] == RegAdd(r, pidof(proc).ID, proc))
//@   ensures[C04.add.registered-then-started-synchronously] !old(has(r.lookup, pidof(proc).ID)) ==> loglen == entry(loglen) + 2 && log[entry(loglen)] == RegAdd(r, pidof(proc).ID, proc) && log[entry(loglen) + 1] == ProcStart(proc)
//@   ensures[C10.add.dup-event] old(has(r.lookup, pidof(proc).ID)) ==> loglen == entry(loglen) + 1 && log[entry(loglen)] == Broadcast(r.engine, ActorDuplicateIdEvent{PID: pidof(proc)})
//@   ensures[C10.add.winner-started] !old(has(r.lookup, pidof(proc).ID)) ==> loglen == entry(loglen) + 2 && log[entry(loglen)] == RegAdd(r, pidof(proc).ID, proc) && log[entry(loglen) + 1] == ProcStart(proc)

//@ func (r *Registry).Remove(pid)
//@   props C10
//@   requires r != nil && pid != nil
//@   modifies mapof(r.lookup)
//@   ghost at call delete#1: emit RegRemove(r, pid.ID)
//@   emits RegRemove(r, pid.ID)
//@   atunlock[C10.remove.only] forallS("Str", id, has(r.lookup, id) == (old(has(r.lookup, id)) && id != pid.ID))
//@   atunlock[C10.remove.kept] forallS("Str", id, r.lookup[id] == old(r.lookup[id]))

//@ func (r *Registry).get(pid)
//@   props C10
//@   requires r != nil
//@   modifies
//@   ensures[C10.get.nil] pid == nil ==> isnil(result)
//@   ensures[C10.get.hit] pid != nil && old(has(r.lookup, pid.ID)) ==> result == old(r.lookup[pid.ID])
//@   ensures[C10.get.miss] pid != nil && !old(has(r.lookup, pid.ID)) ==> isnil(result)

//@ func (r *Registry).getByID(id)
//@   props C10
//@   requires r != nil
//@   modifies
//@   ensures[C10.getbyid.hit] old(has(r.lookup, id)) ==> result == old(r.lookup[id])
//@   ensures[C10.getbyid.miss] !old(has(r.lookup, id)) ==> isnil(result)

//@ func (r *Registry).GetPID(kind, id)
//@   props C10
//@   requires r != nil
//@   modifies
//@   ghost at call getByID#1 before: assert[C10.getpid.key] arg1 == kind + pidSeparator + id
//@   ghost at call getByID#1: got = result
//@   ensures[C10.getpid.hit] !isnil(got) ==> result == pidof(got)
//@   ensures[C10.getpid.miss] isnil(got) ==> result == nil

//@ func (c *Context).GetPID(id)
//@   props C10
//@   requires c != nil && c.engine != nil && c.engine.Registry != nil
//@   modifies
//@   ghost at call getByID#1 before: assert[C10.ctx-getpid.key] arg1 == id && arg0 == c.engine.Registry
//@   ghost at call getByID#1: got = result
//@   ensures[C10.ctx-getpid.hit] !isnil(got) ==> result == pidof(got)
//@   ensures[C10.ctx-getpid.miss] isnil(got) ==> result == nil

// SpawnProc: exactly the effect of Registry.add (register-or-report), then the
// PID of the processer that was handed in.
//@ func (e *Engine).SpawnProc(p)
//@   props C10
//@   requires e != nil && e.Registry != nil && e.Registry.engine != nil && !isnil(p)
//@   modifies heap except private, log, loglen
//@   ghost at call add#1 before: assert[C10.spawnproc.add] arg0 == e.Registry && arg1 == p
//@   ensures[C10.spawnproc.pid] result == pidof(p) && result != nil
//@   ensures[C10.spawnproc.effects] (loglen == entry(loglen) + 2 && log[entry(loglen)] == RegAdd(e.Registry, pidof(p).ID, p) && log[entry(loglen) + 1] == ProcStart(p)) || (loglen == entry(loglen) + 1 && log[entry(loglen)] == Broadcast(e.Registry.engine, ActorDuplicateIdEvent{PID: pidof(p)}))

// ---------------------------------------------------------------------------
// Middleware (C13). wrap(mw, f) names the function a middleware returns for f;
// mwchain(r, A, o, n, i) is the right fold of the middleware slice (backing
// array A, offset o, length n) from position i around the receiver function r:
//   mwchain(r, .., i) = r                                  if i >= n
//                     = wrap(A[o+i], mwchain(r, .., i+1))   otherwise
// so chainOf(r, mws) has mws[0] outermost and r innermost, each applied once.
// The recursive definition is only ever instantiated by explicit `unfold`.

//@ ghost func wrap(Ref, Ref) Ref
//@ ghost func mwchain(Ref, (Array Int Ref), Int, Int, Int) Ref
//@ ghost def mwchain(r, A, o, n, i) := ite(i >= n, r, wrap(A[sidx(o, i)], mwchain(r, A, o, n, i + 1)))
//@ axiom[mwchain.base] forallS("Ref", r, forallS("(Array Int Ref)", A, forall(o, n, mwchain(r, A, o, n, n) == r, mwchain(r, A, o, n, n))))
//@ pred chainOf(r, mws) := mwchain(r, elems(mws), mws.off, len(mws), 0)

// A middleware applied to a receive function: assumed to run no engine code,
// not to panic, and to return a non-nil function (named wrap(mw, next)).
//@ functype MiddlewareFunc(next)
//@   pure
//@   ensures result == wrap(self, next) && result != nil

//@ func applyMiddleware(rcv, middleware)
//@   props C13
//@   requires rcv != nil && forall(k, 0 <= k && k < len(middleware) ==> middleware[k] != nil)
//@   modifies
//@   ensures[C13.apply.fold] result == chainOf(rcv, middleware)
//@   ensures[C13.apply.nonnil] result != nil
//@   ghost at call middleware[i]#1 before: unfold mwchain(entry(rcv), elems(middleware), middleware.off, len(middleware), i)
//@   loop 1
//@     invariant[C13.apply.inv] -1 <= i && i < len(middleware) && rcv != nil && rcv == mwchain(entry(rcv), elems(middleware), middleware.off, len(middleware), i + 1)
//@     decreases i + 1

// ---------------------------------------------------------------------------
// The process core (C04 C05 C06 C07 C13 C01): Start, Invoke, invokeMsg,
// tryRestart, cleanup. These functions run thread-confined (on the inbox worker
// or, for the first Start, on the spawning goroutine; that confinement is the
// subject of C02 and is assumed here). Ghost state:
//   curproc  the process whose method is being verified
//   phase    protocol state of curproc's current incarnation (the receiver
//            returned by the latest Producer call):
//            0 produced, 1 Initialized delivered, 2 Started delivered,
//            3 Stopped delivered / no live incarnation
// The lifecycle protocol (C04), "pills are private" (C07) and "every delivery
// goes through the middleware chain" (C13) are preconditions of the one
// boundary through which a receiver is ever invoked: a call of a ReceiveFunc
// value or of Receiver.Receive.

//@ event Deliver(fn Ref, ctx Ref as *Context, msg Iface, sender Ref as *PID)
//@ event Produce(p Ref as *process)
//@ event Cancel(f Ref)
//@ event InboxStart(in Iface, proc Iface)
//@ event InboxStop(in Iface)
//@ event InboxSend(in Iface, msg Iface, sender Ref as *PID)
//@ event RegRemove(r Ref, id Str)
//@ event PoisonSent(e Ref, pid Ref as *PID, ctx Iface)
//@ event Waited(ch Ref)
//@ event ChildUnlink(m Ref, id Str)

//@ ghost var curproc Ref as *process
//@ ghost var phase Int

//@ pred procInv(p) := p != nil && p.Opts.Producer != nil && p.context != nil && p.context.engine != nil && p.context.engine.Registry != nil && p.context.engine.Registry.engine != nil &&
//@      !isnil(p.inbox) && p.context.children != nil && (p.context.parentCtx != nil ==> p.context.parentCtx.children != nil) && p.pid != nil && p.context.pid == p.pid &&
//@      forall(k, 0 <= k && k < len(p.Opts.Middleware) ==> p.Opts.Middleware[k] != nil)
//@ pred throughChain(fnv, c) := c == curproc.context && fnv == chainOf(boundmethod(c.receiver, "Receive"), curproc.Opts.Middleware)
//@ pred isLifecycle(m) := istype(m, Initialized) || istype(m, Started) || istype(m, Stopped)
//@ pred phaseAfter(m, ph) := ite(istype(m, Initialized), 1, ite(istype(m, Started), 2, ite(istype(m, Stopped), 3, ph)))

// A receive function value invoked with a context: user code. It may panic
// (except when handling Stopped: assumption), may call the exported API, and
// cannot write the engine's private fields.
//@ functype ReceiveFunc(c)
//@   requires[C13.delivery.through-chain] throughChain(self, c)
//@   requires[C07.pill.private] !istype(c.message, poisonPill)
//@   requires[C04.protocol.initialized-first] istype(c.message, Initialized) ==> phase == 0
//@   requires[C04.protocol.started-second] istype(c.message, Started) ==> phase == 1
//@   requires[C04.protocol.stopped-once] istype(c.message, Stopped) && !afterCrash ==> phase == 1 || phase == 2
//@   requires[C04.protocol.stopped-once@max-restarts-exceeded] istype(c.message, Stopped) && afterCrash ==> phase == 1 || phase == 2
//@   requires[C04.protocol.user-after-started] !isLifecycle(c.message) ==> phase == 2
//@   modifies heap except private, phase
//@   maypanic
//@   emits Deliver(self, c, c.message, c.sender)
//@   ensures phase == phaseAfter(c.message, old(phase))
//@   ensures_panic phase == phaseAfter(c.message, old(phase)) && !istype(c.message, Stopped) && !(istype(panicval, *InternalError) && panicval.(*InternalError) == nil)

//@ func (Receiver).Receive(c)
//@   abstract
//@   requires[C13.delivery.through-chain] throughChain(boundmethod(self, "Receive"), c)
//@   requires[C07.pill.private] !istype(c.message, poisonPill)
//@   requires[C04.protocol.initialized-first] istype(c.message, Initialized) ==> phase == 0
//@   requires[C04.protocol.started-second] istype(c.message, Started) ==> phase == 1
//@   requires[C04.protocol.stopped-once] istype(c.message, Stopped) && !afterCrash ==> phase == 1 || phase == 2
//@   requires[C04.protocol.stopped-once@max-restarts-exceeded] istype(c.message, Stopped) && afterCrash ==> phase == 1 || phase == 2
//@   requires[C04.protocol.user-after-started] !isLifecycle(c.message) ==> phase == 2
//@   modifies heap except private, phase
//@   maypanic
//@   emits Deliver(boundmethod(self, "Receive"), c, c.message, c.sender)
//@   ensures phase == phaseAfter(c.message, old(phase))
//@   ensures_panic phase == phaseAfter(c.message, old(phase)) && !istype(c.message, Stopped) && !(istype(panicval, *InternalError) && panicval.(*InternalError) == nil)

// The producer: user code returning a fresh receiver (assumed non-nil, not to
// panic). A new incarnation may only be produced when the previous one is gone.
//@ functype Producer()
//@   requires[C04.produce.previous-stopped] phase == 3
//@   modifies heap except private, phase
//@   emits Produce(curproc)
//@   ensures !isnil(result) && phase == 0

//@ functype context.CancelFunc()
//@   modifies
//@   emits Cancel(self)

//@ func (Inboxer).Start(proc)
//@   abstract
//@   modifies startPerm
//@   emits InboxStart(self, proc)

//@ func (Inboxer).Stop()
//@   abstract
//@   requires[C02.stop.only-worker-or-unstarted-owner] tok || startPerm || anyoneMayStop
//@   modifies stoppedByMe
//@   emits InboxStop(self)
//@   ensures stoppedByMe

//@ func (Inboxer).Send(env)
//@   abstract
//@   modifies
//@   emits InboxSend(self, env.Msg, env.Sender)

//@ func (e *Engine).Poison(pid)
//@   trusted
//@   modifies
//@   emits_ok PoisonSent(e, pid, result)
//@   ensures !isnil(result)

//@ func (c *Context).Children()
//@   trusted
//@   modifies
//@   ensures fresh(result)

//@ func (p *process).cleanup(cancel)
//@   props C06 C07 C13 C04 C08 C10 C12 C02
//@   requires procInv(p) && curproc == p && !isnil(p.context.receiver)
//@   requires[C04.cleanup.live] phase == 1 || phase == 2 || (phase == 3 && afterCrash)
//@   requires[C02.cleanup.on-owner-thread] tok || startPerm
//@   nopanic[C06.cleanup.nopanic]
//@   modifies heap except private, p.context.message, phase, log, loglen, stoppedByMe
//@   ensures[C02.cleanup.inbox-stopped-by-owner] stoppedByMe
//@   ghost at entry: lb = 0; log0 = log
//@   ghost at call Delete#1: emit ChildUnlink(arg0, arg1)
//@   ghost at call Children#1: lb = loglen; log0 = log
//@   ghost at recv: emit Waited(ch)
//@   ghost at call Stop#1 before: assert[C08.cleanup.each-child-poisoned-and-awaited] forall(k, 0 <= k && k < len(children) ==> isev(log[lb + 2*k], PoisonSent) && log[lb + 2*k].PoisonSent_pid == children[k] && log[lb + 2*k + 1] == Waited(ctxdone(log[lb + 2*k].PoisonSent_ctx)))
//@   ensures[C08.cleanup.unlinked-from-parent-first] p.context.parentCtx != nil ==> loglen > entry(loglen) && log[entry(loglen)] == ChildUnlink(p.context.parentCtx.children, p.pid.ID)
//@   ensures[C04.cleanup.stopped] phase == 3
//@   ensures[C07.cleanup.cancel-last] cancel != nil ==> log[loglen - 1] == Cancel(cancel)
//@   ensures[C12.cleanup.stopped-event] isev(log[loglen - ite(cancel != nil, 1, 0) - 1], Broadcast) && log[loglen - ite(cancel != nil, 1, 0) - 1].Broadcast_e == p.context.engine &&
//@        istype(log[loglen - ite(cancel != nil, 1, 0) - 1].Broadcast_msg, ActorStoppedEvent) && log[loglen - ite(cancel != nil, 1, 0) - 1].Broadcast_msg.(ActorStoppedEvent).PID == p.pid
//@   ensures[C04.cleanup.stopped-delivered] isev(log[loglen - ite(cancel != nil, 1, 0) - 2], Deliver) && log[loglen - ite(cancel != nil, 1, 0) - 2].Deliver_ctx == p.context && istype(log[loglen - ite(cancel != nil, 1, 0) - 2].Deliver_msg, Stopped)
//@   ensures[C10.cleanup.unregistered-after-inbox-stop] log[loglen - ite(cancel != nil, 1, 0) - 3] == RegRemove(p.context.engine.Registry, p.pid.ID)
//@   ensures[C07.cleanup.inbox-stopped] log[loglen - ite(cancel != nil, 1, 0) - 4] == InboxStop(p.inbox)
//@   ensures[C08.cleanup.children-first] loglen - ite(cancel != nil, 1, 0) - 4 >= entry(loglen) && forall(k, entry(loglen) <= k && k < loglen - ite(cancel != nil, 1, 0) - 4 ==> isev(log[k], ChildUnlink) || isev(log[k], PoisonSent) || isev(log[k], Waited))
//@   ensures[C04.cleanup.log-prefix] forall(k, 0 <= k && k < entry(loglen) ==> log[k] == entry(log)[k])
//@   loop 1
//@     invariant rangeindex >= -1 && rangeindex < len(children)
//@     invariant loglen == lb + 2 * (rangeindex + 1) && lb >= entry(loglen)
//@     invariant forall(k, 0 <= k && k < lb ==> log[k] == log0[k])
//@     invariant forall(k, 0 <= k && k < entry(loglen) ==> log0[k] == entry(log)[k])
//@     invariant forall(k, entry(loglen) <= k && k < lb ==> isev(log0[k], ChildUnlink))
//@     invariant forall(k, lb <= k && k < loglen ==> isev(log[k], PoisonSent) || isev(log[k], Waited))
//@     invariant forall(k, 0 <= k && k <= rangeindex ==> isev(log[lb + 2*k], PoisonSent) && log[lb + 2*k].PoisonSent_pid == children[k] && log[lb + 2*k + 1] == Waited(ctxdone(log[lb + 2*k].PoisonSent_ctx)))

// afterCrash: set (ghost) on the one path where cleanup runs although the
// current incarnation was already told Stopped by a recover handler (restart
// budget exhausted). It carves the known double-Stopped defect out of
// C04.protocol.stopped-once so that any other second Stopped is still reported.
//@ ghost var afterCrash Bool

//@ pred mbufOK(p) := forall(k, 0 <= k && k < len(p.mbuffer) ==> !isLifecycle(p.mbuffer[k].Msg))
//@ pred budgetInv(p) := 0 <= p.restarts && p.restarts <= p.Opts.MaxRestarts

//@ func cleanTrace(stack)
//@   trusted
//@   pure

//@ func (p *process).tryRestart(v)
//@   props C05 C06 C04 C12 C02
//@   requires procInv(p) && curproc == p && !isnil(p.context.receiver) && budgetInv(p) && !afterCrash && mbufOK(p)
//@   requires !(istype(v, *InternalError) && v.(*InternalError) == nil)
//@   requires[C05.restart.failed-incarnation-stopped] phase == 3
//@   requires[C02.restart.on-owner-thread] (tok || startPerm) && !stoppedByMe
//@   nopanic[C05.tryrestart.nopanic]
//@   modifies heap except private, p.context.receiver, p.context.message, p.context.sender, p.mbuffer, p.restarts, phase, log, loglen, afterCrash, stoppedByMe, startPerm
//@   ensures[C02.restart.alive-means-inbox-not-stopped] phase == 2 ==> !stoppedByMe
//@   ensures tok == old(tok)
//@   ghost at call cleanup#1 before: afterCrash = true
//@   ghost at call Start#2 before: assert[C05.restart.counted] p.restarts == entry(p.restarts) + 1
//@   ghost at call Start#2 before: assert[C12.restart.event] loglen == entry(loglen) + 1 && isev(log[entry(loglen)], Broadcast) && log[entry(loglen)].Broadcast_e == p.context.engine && istype(log[entry(loglen)].Broadcast_msg, ActorRestartedEvent) &&
//@        log[entry(loglen)].Broadcast_msg.(ActorRestartedEvent).PID == p.pid && log[entry(loglen)].Broadcast_msg.(ActorRestartedEvent).Restarts == p.restarts && log[entry(loglen)].Broadcast_msg.(ActorRestartedEvent).Reason == v
//@   ensures[C06.budget.bounded] budgetInv(p)
//@   ensures[C06.budget.counter-never-decreases] p.restarts >= entry(p.restarts)
//@   ensures[C06.budget.restart-only-within] entry(p.restarts) == p.Opts.MaxRestarts && !istype(v, *InternalError) ==> p.restarts == entry(p.restarts) && forall(k, entry(loglen) <= k && k < loglen ==> !isev(log[k], Produce) && !isev(log[k], InboxStart))
//@   ensures[C06.exhaust.event] entry(p.restarts) == p.Opts.MaxRestarts && !istype(v, *InternalError) ==> isev(log[entry(loglen)], Broadcast) && log[entry(loglen)].Broadcast_e == p.context.engine &&
//@        istype(log[entry(loglen)].Broadcast_msg, ActorMaxRestartsExceededEvent) && log[entry(loglen)].Broadcast_msg.(ActorMaxRestartsExceededEvent).PID == p.pid
//@   ensures[C06.exhaust.stopped-unregistered] entry(p.restarts) == p.Opts.MaxRestarts && !istype(v, *InternalError) ==> phase == 3 && log[loglen - 3] == RegRemove(p.context.engine.Registry, p.pid.ID) && log[loglen - 4] == InboxStop(p.inbox)
//@   ensures[C04.tryrestart.phase] phase == 2 || phase == 3
//@   ensures phase == 2 ==> !afterCrash
//@   ensures !isnil(p.context.receiver) && procInv(p)
//@   ensures[C04.tryrestart.log-prefix] loglen >= entry(loglen) && forall(k, 0 <= k && k < entry(loglen) ==> log[k] == entry(log)[k])

//@ func (p *process).Start()
//@   props C04 C05 C13 C12 C06 C02 C07
//@   requires procInv(p) && curproc == p && budgetInv(p) && !afterCrash && mbufOK(p)
//@   requires[C04.start.no-live-incarnation] phase == 3
//@   requires[C02.start.on-owner-thread] (tok || startPerm) && !stoppedByMe
//@   nopanic[C05.start.nopanic]
//@   modifies heap except private, p.context.receiver, p.context.message, p.context.sender, p.mbuffer, p.restarts, phase, log, loglen, afterCrash, stoppedByMe, startPerm
//@   ghost at call Start#1 before: assert[C02.start.only-unstarted-or-running] !replayed ==> startPerm || (tok && !stoppedByMe)
//@   ghost at call Start#1 before: assert[C02.start.only-unstarted-or-running@after-replay] replayed ==> startPerm || (tok && !stoppedByMe)
//@   ensures[C02.start.alive-means-inbox-not-stopped] phase == 2 ==> !stoppedByMe
//@   ensures tok == old(tok)
//@   ghost at entry: replayed = false; replayedAll = false
//@   ghost at call Invoke#1 before: replayedAll = arg1 == old(p.mbuffer) && arg0 == p && phase == 2
//@   ghost at call Invoke#1: replayed = true
//@   ghost at call len#1 before: assert[C04.start.sequence] phase == 2 && loglen == entry(loglen) + 5 && log[entry(loglen)] == Produce(p) &&
//@        isev(log[entry(loglen) + 1], Deliver) && log[entry(loglen) + 1].Deliver_ctx == p.context && istype(log[entry(loglen) + 1].Deliver_msg, Initialized) &&
//@        isev(log[entry(loglen) + 3], Deliver) && log[entry(loglen) + 3].Deliver_ctx == p.context && istype(log[entry(loglen) + 3].Deliver_msg, Started)
//@   ghost at call len#1 before: assert[C12.start.lifecycle-events] isev(log[entry(loglen) + 2], Broadcast) && log[entry(loglen) + 2].Broadcast_e == p.context.engine && istype(log[entry(loglen) + 2].Broadcast_msg, ActorInitializedEvent) &&
//@        log[entry(loglen) + 2].Broadcast_msg.(ActorInitializedEvent).PID == p.pid && isev(log[entry(loglen) + 4], Broadcast) && log[entry(loglen) + 4].Broadcast_e == p.context.engine &&
//@        istype(log[entry(loglen) + 4].Broadcast_msg, ActorStartedEvent) && log[entry(loglen) + 4].Broadcast_msg.(ActorStartedEvent).PID == p.pid
//@   ghost at call Start#1 before: assert[C05.start.replay-before-open] old(len(p.mbuffer)) > 0 ==> replayed && replayedAll
//@   ghost at call Start#1 before: assert[C05.start.buffer-cleared] len(p.mbuffer) == 0
//@   ghost at call Start#1: assert[C04.start.inbox-opened-last] log[loglen - 1] == InboxStart(p.inbox, p)
//@   ghost at call Start#1 before: assert[C04.inbox.opened-only-for-live-actor] !replayed ==> phase == 2
//@   ghost at call Start#1 before: assert[C04.inbox.opened-only-for-live-actor@after-replay] replayed ==> phase == 2
//@   ensures[C04.start.phase] phase == 2 || phase == 3
//@   ensures phase == 2 ==> !afterCrash
//@   ensures[C06.budget.bounded] budgetInv(p)
//@   ensures[C06.budget.counter-never-decreases] p.restarts >= entry(p.restarts)
//@   ensures !isnil(p.context.receiver) && procInv(p)
//@   ensures[C04.start.produce-first] loglen > entry(loglen) && log[entry(loglen)] == Produce(p)
//@   ensures[C04.start.log-prefix] forall(k, 0 <= k && k < entry(loglen) ==> log[k] == entry(log)[k])

// A panic while Initialized/Started is delivered to a restarted incarnation
// happens before the replay: the messages saved by the earlier crash (among
// them a pending poison pill) must still be there for the next attempt.
//@ func (*process).Start$1()
//@   inline
//@   ghost at call tryRestart#1 before: assert[C05.start.crash-keeps-the-retry-buffer] p.mbuffer == entry(p.mbuffer)

//@ pred isPill(m) := istype(m, poisonPill)
//@ pred deliveryOf(p, m, snd) := Deliver(chainOf(boundmethod(p.context.receiver, "Receive"), p.Opts.Middleware), p.context, m, snd)

//@ func (p *process).invokeMsg(msg)
//@   props C01 C13 C07
//@   requires procInv(p) && curproc == p && !isnil(p.context.receiver) && !afterCrash
//@   requires[C04.invokemsg.started] !isPill(msg.Msg) ==> phase == 2
//@   requires !isLifecycle(msg.Msg)
//@   maypanic
//@   modifies heap except private, p.context.message, p.context.sender, phase
//@   emits deliveryOf(p, msg.Msg, msg.Sender) if !isPill(msg.Msg)
//@   ensures[C01.invokemsg.context] !isPill(msg.Msg) ==> phase == 2
//@   ensures isPill(msg.Msg) ==> phase == old(phase) && p.context.message == old(p.context.message) && p.context.sender == old(p.context.sender)
//@   ensures_panic !isPill(msg.Msg) && phase == 2 && !(istype(panicval, *InternalError) && panicval.(*InternalError) == nil)
//@   ghost at call applyMiddleware()#1 before: assert[C01.invokemsg.context] p.context.message == msg.Msg && p.context.sender == msg.Sender
//@   ghost at call Receive#1 before: assert[C01.invokemsg.context] p.context.message == msg.Msg && p.context.sender == msg.Sender

//@ func (p *process).Invoke(msgs)
//@   props C01 C05 C07 C04 C13 C06 C02
//@   requires procInv(p) && curproc == p && !isnil(p.context.receiver) && budgetInv(p) && !afterCrash
//@   requires[C04.invoke.started] phase == 2
//@   requires forall(k, 0 <= k && k < len(msgs) ==> !isLifecycle(msgs[k].Msg))
//@   requires[C02.invoke.only-the-worker] (tok || startPerm) && !stoppedByMe
//@   nopanic[C05.invoke.nopanic]
//@   modifies heap except private, p.context.receiver, p.context.message, p.context.sender, p.mbuffer, p.restarts, phase, log, loglen, afterCrash, stoppedByMe, startPerm
//@   ensures[C02.invoke.alive-means-inbox-not-stopped] phase == 2 ==> !stoppedByMe
//@   ensures tok == old(tok)
//@   ensures[C04.invoke.phase] phase == 2 || phase == 3
//@   ensures phase == 2 ==> !afterCrash
//@   ensures[C06.budget.bounded] budgetInv(p)
//@   ensures[C06.budget.counter-never-decreases] p.restarts >= entry(p.restarts)
//@   ensures !isnil(p.context.receiver) && procInv(p)
//@   ensures[C04.invoke.log-prefix] loglen >= entry(loglen) && forall(k, 0 <= k && k < entry(loglen) ==> log[k] == entry(log)[k])
//@   ghost at entry: inDrain = false; drainIdx = 0; pillIdx = 0
//@   ghost at call invokeMsg#2 before: inDrain = true; drainIdx = processed + rangeindex; pillIdx = processed
//@   ghost at return#2: assert[C01.invoke.order] loglen == entry(loglen) + len(msgs) && forall(k, 0 <= k && k < len(msgs) ==> log[entry(loglen) + k] == deliveryOf(p, msgs[k].Msg, msgs[k].Sender))
//@   ghost at call cleanup#1 before: assert[C07.pill.messages-before-it-first] loglen >= entry(loglen) + i && forall(k, 0 <= k && k < i ==> log[entry(loglen) + k] == deliveryOf(p, msgs[k].Msg, msgs[k].Sender))
//@   ghost at call cleanup#1 before: assert[C07.stop.immediate] !pill.graceful ==> loglen == entry(loglen) + i
//@   ghost at call cleanup#1 before: assert[C07.pill.every-cancel@later-pill-in-batch] forall(k, i < k && k < len(msgs) ==> !isPill(msgs[k].Msg))
//@   ghost at return#3: assert[C07.pill.cancelled-last] pill.cancel != nil ==> log[loglen - 1] == Cancel(pill.cancel)
//@   ghost at return#3: assert[C07.pill.stopped-unregistered-before-cancel] phase == 3 && log[loglen - ite(pill.cancel != nil, 1, 0) - 3] == RegRemove(p.context.engine.Registry, p.pid.ID) &&
//@        isev(log[loglen - ite(pill.cancel != nil, 1, 0) - 2], Deliver) && istype(log[loglen - ite(pill.cancel != nil, 1, 0) - 2].Deliver_msg, Stopped)
//@   loop 1
//@     invariant 0 <= i && i <= len(msgs) && nproc == i && processed == i && nmsg == len(msgs)
//@     invariant phase == 2 && !afterCrash && procInv(p) && curproc == p && !isnil(p.context.receiver) && budgetInv(p) && p.context.receiver == old(p.context.receiver) && (tok || startPerm) && !stoppedByMe && tok == old(tok) && p.restarts >= entry(p.restarts)
//@     invariant forall(k, 0 <= k && k < len(msgs) ==> msgs[k] == old(msgs[k]))
//@     invariant loglen == entry(loglen) + i
//@     invariant forall(k, 0 <= k && k < i ==> log[entry(loglen) + k] == deliveryOf(p, msgs[k].Msg, msgs[k].Sender))
//@     invariant forall(k, 0 <= k && k < entry(loglen) ==> log[k] == entry(log)[k])
//@     invariant forall(k, 0 <= k && k < i ==> !isPill(msgs[k].Msg))
//@     modifies p.context.message, p.context.sender, p.context.receiver, p.mbuffer, p.restarts, none(E$S$actor.Envelope)
//@   loop 2
//@     invariant rangeindex >= -1 && rangeindex < len(msgsToProcess) && len(msgsToProcess) == len(msgs) - processed && msgsToProcess.arr == msgs.arr && msgsToProcess.off == msgs.off + processed
//@     invariant 0 <= i && i < len(msgs) && nproc == i + 1 && processed == i && nmsg == len(msgs) && isPill(msgs[i].Msg) && msg == msgs[i] && pill == msg.Msg.(poisonPill)
//@     invariant phase == 2 && !afterCrash && procInv(p) && curproc == p && !isnil(p.context.receiver) && budgetInv(p) && p.context.receiver == old(p.context.receiver) && (tok || startPerm) && !stoppedByMe && tok == old(tok) && p.restarts >= entry(p.restarts)
//@     invariant forall(k, 0 <= k && k < len(msgs) ==> msgs[k] == old(msgs[k]))
//@     invariant loglen >= entry(loglen) + i
//@     invariant forall(k, 0 <= k && k < i ==> log[entry(loglen) + k] == deliveryOf(p, msgs[k].Msg, msgs[k].Sender))
//@     invariant forall(k, 0 <= k && k < entry(loglen) ==> log[k] == entry(log)[k])
//@     invariant forall(j, 0 <= j && j < len(msgsToProcess) ==> msgsToProcess[j] == msgs[processed + j])
//@     modifies p.context.message, p.context.sender, p.context.receiver, p.mbuffer, p.restarts, none(E$S$actor.Envelope)

//@ func (*process).Invoke$1()
//@   inline
//@   ghost at call tryRestart#1 before: assert[C05.crash.buffer] len(p.mbuffer) == len(msgs) - nproc && forall(j, 0 <= j && j < len(msgs) - nproc ==> p.mbuffer[j] == msgs[nproc + j])
//@   ghost at call tryRestart#1 before: assert[C05.crash.failed-not-redelivered] !inDrain ==> loglen == entry(loglen) + nproc + 1 && forall(k, 0 <= k && k < nproc ==> log[entry(loglen) + k] == deliveryOf(p, msgs[k].Msg, msgs[k].Sender))
//@   ghost at call tryRestart#1 before: assert[C05.crash.failed-not-redelivered@while-draining-behind-pill] inDrain ==> nproc == drainIdx + 1
//@   ghost at call tryRestart#1 before: assert[C07.pill.every-cancel@crash-while-draining-behind-it] inDrain ==> nproc <= pillIdx
//@   ghost at call tryRestart#1 before: assert[C05.crash.stopped-to-failed] phase == 3 && isev(log[loglen - 1], Deliver) && log[loglen - 1].Deliver_ctx == p.context && istype(log[loglen - 1].Deliver_msg, Stopped)
//@   loop 1
//@     invariant 0 <= idx && idx <= len(msgs) - nproc && len(p.mbuffer) == len(msgs) - nproc && fresh(p.mbuffer) && p.mbuffer.off == 0
//@     invariant forall(j, 0 <= j && j < idx ==> p.mbuffer[j] == msgs[j + nproc])
//@     modifies elements(p.mbuffer)


// ---------------------------------------------------------------------------
// The send path (C01 C09 C07 C11 C12 C17). sentLocal(.., k): what SendLocal
// appends at log position k: either the dead letter for exactly this
// (target, message, sender), or exactly one Send of exactly these values to a
// registered processer. Which of the two depends on the registry at the moment
// of the lookup (Registry.get's own contract, C10).

//@ event RemoteSend(r Iface, pid Ref as *PID, msg Iface, sender Ref as *PID)

//@ pred sentLocal(e, pid, msg, sender, k) := log[k] == Broadcast(e, DeadLetterEvent{Target: pid, Message: msg, Sender: sender}) ||
//@      (isev(log[k], ProcSend) && !isnil(log[k].ProcSend_proc) && log[k].ProcSend_target == pid && log[k].ProcSend_msg == msg && log[k].ProcSend_sender == sender)
//@ pred sendEffect(e, pid, msg, sender, k0, k1) := (pid == nil ==> k1 == k0) && (pid != nil ==> k1 == k0 + 1) &&
//@      (pid != nil && e.address == pid.Address ==> sentLocal(e, pid, msg, sender, k0)) &&
//@      (pid != nil && e.address != pid.Address && isnil(e.remote) ==> log[k0] == Broadcast(e, EngineRemoteMissingEvent{Target: pid, Sender: sender, Message: msg})) &&
//@      (pid != nil && e.address != pid.Address && !isnil(e.remote) ==> log[k0] == RemoteSend(e.remote, pid, msg, sender))
//@ pred pidAddr(q) := q.Address
//@ pred pidID(q) := q.ID
//@ pred logPrefix(k0) := forall(k, 0 <= k && k < k0 ==> log[k] == entry(log)[k])
//@ pred engInv(e) := e != nil && e.Registry != nil && e.Registry.engine != nil

//@ func (Remoter).Send(pid, msg, sender)
//@   abstract
//@   modifies
//@   emits RemoteSend(self, pid, msg, sender)

//@ func (e *Engine).isLocalMessage(pid)
//@   props C01 C09
//@   requires e != nil
//@   pure
//@   ensures[C01.islocal.def] result == (pid != nil && e.address == pid.Address)

//@ func (e *Engine).SendLocal(pid, msg, sender)
//@   props C01 C09 C16
//@   requires engInv(e)
//@   nopanic[C09.sendlocal.nopanic]
//@   modifies log, loglen
//@   ghost at call get#1 before: assert[C01.sendlocal.lookup-target] arg0 == e.Registry && arg1 == pid
//@   ghost at call get#1: got = result
//@   ghost at return: assert[C09.deadletter.once] isnil(got) ==> loglen == entry(loglen) + 1 && log[entry(loglen)] == Broadcast(e, DeadLetterEvent{Target: pid, Message: msg, Sender: sender})
//@   ghost at return: assert[C01.sendlocal.once] !isnil(got) ==> loglen == entry(loglen) + 1 && log[entry(loglen)] == ProcSend(got, pid, msg, sender)
//@   ensures[C01.sendlocal.effect] loglen == entry(loglen) + 1 && sentLocal(e, pid, msg, sender, entry(loglen)) && logPrefix(entry(loglen))

//@ func (e *Engine).send(pid, msg, sender)
//@   props C01 C09 C17
//@   requires engInv(e)
//@   nopanic[C09.send.nopanic]
//@   modifies log, loglen
//@   ensures[C09.send.nil-is-noop] pid == nil ==> loglen == entry(loglen)
//@   ensures[C01.send.local-route] pid != nil && e.address == pid.Address ==> loglen == entry(loglen) + 1 && sentLocal(e, pid, msg, sender, entry(loglen))
//@   ensures[C09.send.remote-missing] pid != nil && e.address != pid.Address && isnil(e.remote) ==> loglen == entry(loglen) + 1 && log[entry(loglen)] == Broadcast(e, EngineRemoteMissingEvent{Target: pid, Sender: sender, Message: msg})
//@   ensures[C17.send.remote-route] pid != nil && e.address != pid.Address && !isnil(e.remote) ==> loglen == entry(loglen) + 1 && log[entry(loglen)] == RemoteSend(e.remote, pid, msg, sender)
//@   ensures[C01.send.log-prefix] logPrefix(entry(loglen))

//@ func (e *Engine).Send(pid, msg)
//@   props C01 C09
//@   requires engInv(e)
//@   nopanic[C09.send.nopanic]
//@   modifies log, loglen
//@   ensures[C01.send.effect] sendEffect(e, pid, msg, nil, entry(loglen), loglen) && logPrefix(entry(loglen))

//@ func (e *Engine).SendWithSender(pid, msg, sender)
//@   props C01 C09
//@   requires engInv(e)
//@   nopanic[C09.send.nopanic]
//@   modifies log, loglen
//@   ensures[C01.send.effect] sendEffect(e, pid, msg, sender, entry(loglen), loglen) && logPrefix(entry(loglen))

// A poison pill: unknown PID => dead letter + immediate cancel of the returned
// context; otherwise the pill (carrying that context's cancel func) goes through
// SendLocal. ctxcancel(c) names the cancel func of a context made by WithCancel.
//@ func (e *Engine).sendPoisonPill(ctx, graceful, pid)
//@   props C07 C09
//@   requires engInv(e)
//@   nopanic[C07.poison.nopanic]
//@   modifies log, loglen
//@   ghost at call get#1: got = result
//@   ghost at return: assert[C07.pill.unknown-pid-cancelled-at-once] isnil(got) ==> loglen == entry(loglen) + 2 &&
//@        log[entry(loglen)] == Broadcast(e, DeadLetterEvent{Target: pid, Message: poisonPill{cancel: ctxcancel(result), graceful: graceful}, Sender: nil}) && log[entry(loglen) + 1] == Cancel(ctxcancel(result))
//@   ghost at return: assert[C07.pill.enqueued-once] !isnil(got) ==> loglen == entry(loglen) + 1 && sentLocal(e, pid, poisonPill{cancel: ctxcancel(result), graceful: graceful}, nil, entry(loglen))
//@   ensures[C07.poison.ctx] !isnil(result) && logPrefix(entry(loglen)) && loglen >= entry(loglen) + 1

//@ func (e *Engine).Stop(pid)
//@   props C07
//@   requires engInv(e)
//@   modifies log, loglen
//@   ghost at call sendPoisonPill#1 before: assert[C07.stop.not-graceful] arg0 == e && arg2 == false && arg3 == pid
//@   ensures !isnil(result) && logPrefix(entry(loglen))

// ---------------------------------------------------------------------------
// From a Processer to the ring and back (C01): process.Send, Inbox.Send,
// Inbox.run. The interleaving of these with the worker (one worker at a time,
// no lost wake-up) is the subject of C02/C03 and is not decided here.

//@ event ProcInvoke(proc Iface, msgs Slice)

//@ func (Processer).Invoke(msgs)
//@   abstract
//@   requires[C02.invoke.only-the-worker] tok || startPerm
//@   modifies heap except H$actor.Inbox$rb H$actor.Inbox$scheduler, stoppedByMe
//@   emits ProcInvoke(self, msgs)

// Scheduling a function hands it the worker token that the caller has just
// minted (handoff); a call without a freshly minted token would start a second
// worker.
//@ func (Scheduler).Schedule(fn)
//@   abstract
//@   requires[C02.schedule.only-with-a-freshly-minted-token] handoff
//@   modifies handoff
//@   ensures !handoff

//@ func (Scheduler).Throughput()
//@   abstract
//@   pure

//@ func (p *process).Send(a, msg, sender)
//@   props C01
//@   requires p != nil && !isnil(p.inbox)
//@   modifies
//@   emits InboxSend(p.inbox, msg, sender)

// ---------------------------------------------------------------------------
// The inbox state word (C02 C03): global-invariant mode. Shared state of one
// Inbox: procStatus (S), the ring length rb.len (L), proc, and the ghost counters
//   tokens  worker tokens in existence (a worker = the goroutine allowed to pop
//           from the ring and to call proc.Invoke)
//   wakers  threads that currently owe a schedule() call
// Thread-local ghost (never touched by other threads): tok (this thread is the
// worker), owes (this thread owes a schedule()), starter (this thread won the
// stopped->starting CAS), startPerm (this thread created the inbox and nobody
// has started it yet), stoppedByMe (this thread stored `stopped`).
// Before every atomic step the shared state is havoced subject to the
// invariant and the stable clauses; after it the invariant is re-proved.
// Who may stop: only the worker or the not-yet-started owner (process inboxes;
// remote stream writers stop their inbox from other goroutines and are outside
// this claim).

//@ ghost var tokens Int
//@ ghost var wakers Int
//@ ghost var tok Bool
//@ ghost var owes Bool
//@ ghost var starter Bool
//@ ghost var startPerm Bool
//@ ghost var stoppedByMe Bool
//@ ghost var published Bool
//@ ghost var handoff Bool
// anyoneMayStop: the stop policy of the inbox a caller of Inboxer.Stop owns.
// False for process inboxes (only the worker or the unstarted owner stops
// them: what C02 relies on); remote stream writers stop their inbox from other
// goroutines and assume it true (their inbox is outside the C02 claim).
//@ ghost var anyoneMayStop Bool

//@ protocol Inbox(in)
//@   shared in.procStatus, in.rb.len, in.proc, tokens, wakers
//@   steps call CompareAndSwapInt32, call SwapInt32, call StoreInt32, call LoadInt32, call Push, call PopN, call Len, store proc
//@   threadlocal tok, owes, starter, startPerm, stoppedByMe, published, handoff
//@   inv[C02.inv.at-most-one-worker] tokens == 0 || tokens == 1
//@   inv[C02.inv.running-has-worker] in.procStatus == running ==> tokens == 1
//@   inv[C02.inv.idle-or-starting-has-no-worker] in.procStatus == idle || in.procStatus == starting ==> tokens == 0
//@   inv[C03.inv.idle-and-nonempty-has-waker] in.procStatus == idle && in.rb.len > 0 ==> wakers > 0
//@   inv[C02.inv.proc-published-before-any-worker] in.procStatus == idle || in.procStatus == running ==> !isnil(in.proc)
//@   inv[C02.inv.ranges] wakers >= 0 && in.rb.len >= 0 && in.procStatus >= 0 && in.procStatus <= 3
//@   stable[C02.stable.worker] tok ==> tokens == 1 && !isnil(in.proc) && (in.procStatus == running || (in.procStatus == stopped && stoppedByMe))
//@   stable[C03.stable.debt] owes ==> wakers >= 1
//@   stable[C02.stable.starter] starter ==> in.procStatus == starting && tokens == 0 && (published ==> !isnil(in.proc))
//@   stable[C02.stable.start-permission] startPerm ==> in.procStatus == stopped && tokens == 0

//@ pred inboxOK(in) := in != nil && in.rb != nil && !isnil(in.scheduler)

//@ func (in *Inbox).schedule()
//@   props C02 C03 C01
//@   requires inboxOK(in) && owes && !handoff
//@   modifies in.procStatus, tokens, wakers, owes, handoff
//@   ghost at call CompareAndSwapInt32#1 on success: tokens = tokens + 1; handoff = true
//@   ghost at call CompareAndSwapInt32#1: wakers = wakers - 1; owes = false
//@   ghost at call Schedule#1 before: assert[C02.schedule.hands-the-new-token-to-process] arg0 == boundmethod(in, "process")
//@   ensures[C02.schedule.no-token-leak] !handoff
//@   ensures[C03.exit.no-debt] !owes

//@ func (in *Inbox).Send(msg)
//@   props C01 C02 C03
//@   requires inboxOK(in) && !owes && !handoff
//@   modifies in.procStatus, in.rb.content, in.rb.len, in.rb.content.*, elements(in.rb.content.items), tokens, wakers, owes, handoff
//@   ghost at call Push#1 before: assert[C01.inbox.pushes-exactly-the-envelope] arg0 == in.rb && arg1 == msg
//@   ghost at call Push#1: wakers = wakers + 1; owes = true
//@   ghost at call schedule#1 before: assert[C03.send.push-before-schedule] loglen == entry(loglen) + 1 && owes
//@   emits RingPush(in.rb)
//@   ensures[C03.exit.no-debt] !owes

//@ func (in *Inbox).process()
//@   props C02 C03
//@   requires inboxOK(in) && tok && !owes && !handoff
//@   modifies heap except H$actor.Inbox$rb H$actor.Inbox$scheduler, stoppedByMe, tokens, wakers, log, loglen, tok, owes, handoff
//@   ghost at call CompareAndSwapInt32#1 on success: tokens = tokens - 1; tok = false; wakers = wakers + 1; owes = true
//@   ghost at call CompareAndSwapInt32#1 on failure: tokens = tokens - 1; tok = false
//@   ghost at call Len#1: wakers = ite(result == 0, wakers - 1, wakers); owes = result != 0
//@   ensures[C03.exit.no-debt] !owes
//@   ensures[C02.process.releases-the-token] !tok

//@ func (in *Inbox).run()
//@   props C01 C02 C03
//@   requires inboxOK(in) && tok && !owes
//@   ghost at call PopN#1 before: assert[C01.run.pops-own-ring] arg0 == in.rb && arg1 >= 1
//@   ghost at call PopN#1 before: assert[C02.pop.only-the-worker] tok
//@   ghost at call PopN#1: popped = result0
//@   ghost at call Invoke#1 before: assert[C01.run.batch-whole-to-own-processer] recv == in.proc && arg0 == popped && len(arg0) > 0
//@   ghost at call Invoke#1 before: assert[C02.invoke.only-the-worker] tok
//@   modifies heap except H$actor.Inbox$rb H$actor.Inbox$scheduler, stoppedByMe, tokens, wakers, log, loglen
//@   ensures[C02.run.keeps-the-token] tok && !owes && inboxOK(in)
//@   loop 1
//@     invariant inboxOK(in) && tok && !owes

//@ func (in *Inbox).Start(proc)
//@   props C02 C03 C04
//@   requires inboxOK(in) && !isnil(proc) && !owes && !starter && !published && !handoff
//@   requires[C02.start.only-unstarted-or-running] startPerm || (tok && !stoppedByMe)
//@   modifies in.procStatus, in.proc, tokens, wakers, owes, starter, startPerm, published, handoff
//@   ghost at call CompareAndSwapInt32#1 on success: startPerm = false; starter = true
//@   ghost at store proc#1: assert[C02.proc.written-only-by-the-starter] starter; published = true
//@   ghost at call SwapInt32#1: starter = false; published = false; wakers = wakers + 1; owes = true
//@   ensures[C03.exit.no-debt] !owes && !starter

//@ func (in *Inbox).Stop()
//@   props C02 C03
//@   requires in != nil
//@   requires[C02.stop.only-worker-or-unstarted-owner] tok || startPerm
//@   modifies in.procStatus, stoppedByMe
//@   ghost at call StoreInt32#1: stoppedByMe = true
//@   ensures stoppedByMe

// BroadcastEvent is used by every caller through its abstract contract (one
// Broadcast entry in the effect log). Its body is checked here against what
// that entry stands for: the event is sent to the event-stream actor, with no
// sender, through the ordinary send path (and dropped when there is no stream).
//@ func (e *Engine).BroadcastEvent!impl(msg)
//@   props C09 C12
//@   requires engInv(e)
//@   nopanic[C09.broadcast.nopanic]
//@   modifies log, loglen
//@   ensures[C09.broadcast.routed-to-stream] (e.eventStream != nil ==> sendEffect(e, e.eventStream, msg, nil, entry(loglen), loglen)) && (e.eventStream == nil ==> loglen == entry(loglen)) && logPrefix(entry(loglen))

// ---------------------------------------------------------------------------
// Context accessors and helpers

//@ func (c *Context).Message()
//@   props C12 C11
//@   requires c != nil
//@   pure
//@   ensures result == c.message

//@ func (c *Context).PID()
//@   props C11
//@   requires c != nil
//@   pure
//@   ensures result == c.pid

//@ func (c *Context).Forward(pid)
//@   props C12 C09
//@   requires c != nil && engInv(c.engine)
//@   nopanic[C09.forward.nopanic]
//@   modifies log, loglen
//@   ensures[C12.forward.effect] sendEffect(c.engine, pid, c.message, c.pid, entry(loglen), loglen) && logPrefix(entry(loglen))

//@ func (c *Context).Respond(msg)
//@   props C11
//@   requires c != nil && engInv(c.engine)
//@   nopanic[C11.respond.nopanic]
//@   modifies log, loglen
//@   ensures[C11.respond.to-sender] (c.sender == nil ==> loglen == entry(loglen)) && (c.sender != nil ==> sendEffect(c.engine, c.sender, msg, nil, entry(loglen), loglen)) && logPrefix(entry(loglen))

//@ func (e *Engine).Subscribe(pid)
//@   props C12
//@   requires engInv(e)
//@   modifies log, loglen
//@   ensures[C12.subscribe.route] sendEffect(e, e.eventStream, eventSub{pid: pid}, nil, entry(loglen), loglen)

//@ func (e *Engine).Unsubscribe(pid)
//@   props C12
//@   requires engInv(e)
//@   modifies log, loglen
//@   ensures[C12.unsubscribe.route] sendEffect(e, e.eventStream, eventUnsub{pid: pid}, nil, entry(loglen), loglen)

// ---------------------------------------------------------------------------
// The event stream actor (C12 C09). Its subscriber set is a map keyed by *PID
// (pointer identity). The fan-out loop is verified with two ghost arrays:
// at[q] = log position of the forward to subscriber q, src[k] = subscriber
// whose forward is at log position k; together they are a bijection between
// the non-nil subscribers and the log entries the loop appends.

// Every Log method of the package is verified against this contract
// (`implementations`): eventStream.Receive calls Log before it forwards the
// event, so a Log that panics loses the event for every subscriber.
//@ func (EventLogger).Log()
//@   abstract
//@   props C09 C12
//@   pure
//@   implementations

//@ pred forwardedAt(e, pid, msg, sender, k) := (e.address == pid.Address ==> sentLocal(e, pid, msg, sender, k)) &&
//@      (e.address != pid.Address && isnil(e.remote) ==> log[k] == Broadcast(e, EngineRemoteMissingEvent{Target: pid, Sender: sender, Message: msg})) &&
//@      (e.address != pid.Address && !isnil(e.remote) ==> log[k] == RemoteSend(e.remote, pid, msg, sender))

//@ func (e *eventStream).Receive(c)
//@   props C12 C09
//@   requires e != nil && e.subs != nil && c != nil && engInv(c.engine)
//@   nopanic[C12.stream.nopanic]
//@   modifies mapof(e.subs), log, loglen
//@   ghost at entry: lb = loglen; at = arbitrary("(Array Ref Int)"); src = arbitrary("(Array Int Ref)")
//@   ghost at call Forward#1: at = ite(sub != nil, store(at, sub, loglen - 1), at); src = ite(sub != nil, store(src, loglen - 1, sub), src)
//@   ghost at mapupdate#1: assert[C12.sub.added] key == c.message.(eventSub).pid && value == true
//@   ensures[C12.sub.set] istype(c.message, eventSub) ==> loglen == entry(loglen) && has(e.subs, c.message.(eventSub).pid) && forallS("Ref as *PID", q, q != c.message.(eventSub).pid ==> has(e.subs, q) == old(has(e.subs, q)))
//@   ensures[C12.unsub.set] istype(c.message, eventUnsub) ==> loglen == entry(loglen) && !has(e.subs, c.message.(eventUnsub).pid) && forallS("Ref as *PID", q, q != c.message.(eventUnsub).pid ==> has(e.subs, q) == old(has(e.subs, q)))
//@   ensures[C12.unsub.by-value@equal-pid-in-distinct-object] istype(c.message, eventUnsub) && c.message.(eventUnsub).pid != nil ==> forallS("Ref as *PID", q, has(e.subs, q) && q != nil ==> !(pidAddr(q) == pidAddr(c.message.(eventUnsub).pid) && pidID(q) == pidID(c.message.(eventUnsub).pid)))
//@   ensures[C12.forward.subs-unchanged] !istype(c.message, eventSub) && !istype(c.message, eventUnsub) ==> forallS("Ref as *PID", q, has(e.subs, q) == old(has(e.subs, q)))
//@   ghost at return#1: assert[C12.forward.each-subscriber-once] !istype(c.message, eventSub) && !istype(c.message, eventUnsub) ==> forallS("Ref as *PID", q, has(e.subs, q) && q != nil ==> lb <= at[q] && at[q] < loglen && src[at[q]] == q && forwardedAt(c.engine, q, c.message, c.pid, at[q]))
//@   ghost at return#1: assert[C09.finite@subscriber-no-longer-registered] istype(c.message, DeadLetterEvent) ==> forall(k, lb <= k && k < loglen ==> !(isev(log[k], Broadcast) && istype(log[k].Broadcast_msg, DeadLetterEvent)))
//@   ghost at return#1: assert[C12.forward.nothing-else] !istype(c.message, eventSub) && !istype(c.message, eventUnsub) ==> lb == entry(loglen) && logPrefix(lb) && forall(k, lb <= k && k < loglen ==> has(e.subs, src[k]) && src[k] != nil && at[src[k]] == k)
//@   loop 1
//@     invariant[C12.forward.inv.base] lb == entry(loglen) && loglen >= lb && logPrefix(lb)
//@     invariant[C12.forward.inv.at] forallS("Ref as *PID", q, visited1[q] && has(e.subs, q) && q != nil ==> lb <= at[q] && at[q] < loglen && src[at[q]] == q && forwardedAt(c.engine, q, c.message, c.pid, at[q]))
//@     invariant[C12.forward.inv.src] forall(k, lb <= k && k < loglen ==> visited1[src[k]] && has(e.subs, src[k]) && src[k] != nil && at[src[k]] == k)


// ---------------------------------------------------------------------------
// Request / response (C11). A Response is a one-shot Processer: Send puts the
// reply into its channel (ChanSend event), Result takes one value out of it
// or gives up at the timeout, and unregisters the response PID on every path.

//@ event ChanSend(ch Ref, v Iface)

//@ func NewResponse(e, timeout)
//@   props C11
//@   requires e != nil
//@   modifies
//@   ensures fresh(result) && result != nil && result.engine == e && result.pid != nil && result.pid.Address == e.address && result.result != nil

//@ func (r *Response).PID()
//@   props C11
//@   requires r != nil
//@   pure
//@   ensures result == r.pid

//@ func (r *Response).Send(a, msg, b)
//@   props C11
//@   requires r != nil
//@   modifies
//@   ghost at chansend: emit ChanSend(ch, sent)
//@   emits ChanSend(r.result, msg)

//@ func (r *Response).Result()
//@   props C11 C10
//@   requires r != nil && engInv(r.engine) && r.pid != nil
//@   nopanic[C11.result.nopanic]
//@   modifies mapof(r.engine.Registry.lookup), log, loglen
//@   ghost at select#1: sel = idx; got = recv0; from = chan0
//@   ghost at return#2: assert[C11.result.value-from-own-channel] sel == 0 && from == r.result && result0 == got && isnil(result1)
//@   ghost at return#3: assert[C11.result.timeout-returns-no-value] sel == 1 && isnil(result0)
//@   ghost at return#2: assert[C11.result.always-unregisters] loglen == entry(loglen) + 2 && isev(log[entry(loglen)], Cancel) && log[entry(loglen) + 1] == RegRemove(r.engine.Registry, r.pid.ID)
//@   ghost at return#3: assert[C11.result.always-unregisters] loglen == entry(loglen) + 2 && isev(log[entry(loglen)], Cancel) && log[entry(loglen) + 1] == RegRemove(r.engine.Registry, r.pid.ID)
//@   ensures[C11.result.log-prefix] logPrefix(entry(loglen))

//@ func (*Response).Result$1()
//@   inline

//@ func (e *Engine).Request(pid, msg, timeout)
//@   props C11
//@   requires engInv(e)
//@   modifies heap except private, log, loglen
//@   ghost at call add#1 before: assert[C11.request.registers-response] arg0 == e.Registry && loglen == entry(loglen)
//@   ghost at call SendWithSender#1 before: assert[C11.request.sends-after-registering-with-response-as-sender] arg1 == pid && arg2 == msg && arg3 == resp.pid && loglen > entry(loglen)
//@   ensures[C11.request.response] result != nil && fresh(result) && result.engine == e && result.pid != nil

//@ func (c *Context).Sender()
//@   props C11 C20
//@   requires c != nil
//@   pure
//@   ensures result == c.sender

// addressedTo(ev, pid): the log entry ev is the outcome of a send to pid
// (delivery to a processer, dead letter, remote-missing event or remote send).
//@ pred addressedTo(ev, pid) := (isev(ev, ProcSend) && ev.ProcSend_target == pid) || (isev(ev, RemoteSend) && ev.RemoteSend_pid == pid) ||
//@      (isev(ev, Broadcast) && ((istype(ev.Broadcast_msg, DeadLetterEvent) && ev.Broadcast_msg.(DeadLetterEvent).Target == pid) || (istype(ev.Broadcast_msg, EngineRemoteMissingEvent) && ev.Broadcast_msg.(EngineRemoteMissingEvent).Target == pid)))
//@ pred carries(ev, m) := (isev(ev, ProcSend) && ev.ProcSend_msg == m) || (isev(ev, RemoteSend) && ev.RemoteSend_msg == m) ||
//@      (isev(ev, Broadcast) && ((istype(ev.Broadcast_msg, DeadLetterEvent) && ev.Broadcast_msg.(DeadLetterEvent).Message == m) || (istype(ev.Broadcast_msg, EngineRemoteMissingEvent) && ev.Broadcast_msg.(EngineRemoteMissingEvent).Message == m)))

// The default scheduler: the function handed to Schedule is started exactly
// once, on a new goroutine (which thereby receives the worker token).
//@ func (goscheduler).Schedule(fn)
//@   props C02
//@   modifies handoff
//@   ghost at entry: spawned = 0
//@   ghost at go fn: spawned = spawned + 1; handoff = false
//@   ghost at return#1: assert[C02.scheduler.starts-fn-exactly-once] spawned == 1
//@   ensures !handoff

// ---------------------------------------------------------------------------
// Supervision tree (C08): linking a child to its parent; cleanup (above)
// unlinks from the parent first and poisons and awaits every child of the
// Children() snapshot before the own inbox is stopped.

//@ functype OptFunc(opts)
//@   modifies heap except private

//@ func DefaultOpts(p)
//@   props C06 C01
//@   modifies
//@   ensures[C06.config.default-budget-is-non-negative] result.MaxRestarts == defaultMaxRestarts && result.MaxRestarts >= 0
//@   ensures[C01.config.default-inbox-size-is-positive] result.InboxSize == defaultInboxSize && result.InboxSize >= 1 && result.Producer == p && len(result.Middleware) == 0

//@ func newFuncReceiver(f)
//@   props C08
//@   modifies
//@   ensures result != nil

//@ func (p *process).PID()
//@   props C08
//@   requires p != nil
//@   pure
//@   ensures result == p.pid

//@ func NewInbox(size)
//@   props C02 C01
//@   constructs
//@   requires[C01.config.inbox-size-at-least-one] size >= 1
//@   modifies startPerm
//@   ensures[C02.newinbox.unstarted] result != nil && fresh(result) && result.rb != nil && !isnil(result.scheduler) && result.procStatus == stopped && isnil(result.proc) && result.rb.len == 0
//@   ghost at return#1: startPerm = true
//@   ensures[C02.newinbox.owner-may-start-it] startPerm

//@ func newProcess(e, opts)
//@   props C08 C02
//@   requires e != nil && opts.InboxSize >= 1
//@   modifies startPerm
//@   ensures result != nil && fresh(result) && result.context != nil && fresh(result.context) && result.context.parentCtx == nil && result.context.children != nil &&
//@        result.pid != nil && result.context.pid == result.pid && result.context.engine == e && result.pid.Address == e.address && result.pid.ID == opts.Kind + pidSeparator + opts.ID

//@ func (c *Context).SpawnChild(p, name, opts)
//@   props C08
//@   modifies heap except private, mapof(c.children.data), log, loglen, startPerm
//@   requires c != nil && c.pid != nil && engInv(c.engine) && c.children != nil && forall(k, 0 <= k && k < len(opts) ==> opts[k] != nil)
//@   ghost at call newProcess#1 before: assume[C01.config.inbox-size-at-least-one] options.InboxSize >= 1
//@   ghost at call SpawnProc#1 before: assert[C08.spawnchild.child-knows-its-parent] arg0 == c.engine && arg1 == Processer(proc) && proc.context.parentCtx == c
//@   ghost at call SpawnProc#1: spawned = result
//@   ghost at call Set#1 before: assert[C08.spawnchild.registered-with-parent] arg0 == c.children && arg1 == spawned.ID && arg2 == spawned
//@   ghost at return#1: assert[C08.spawnchild.returns-child-pid] result == proc.pid
//@   loop 1
//@     invariant rangeindex >= -1

//@ func (c *Context).Parent()
//@   props C08
//@   requires c != nil
//@   modifies
//@   ensures[C08.parent] (c.parentCtx != nil ==> result == c.parentCtx.pid) && (c.parentCtx == nil ==> result == nil)

//@ func (c *Context).Child(id)
//@   props C08
//@   requires c != nil && c.children != nil
//@   modifies
//@   ghost at call Get#1 before: assert[C08.child.looks-up-own-children] arg0 == c.children && arg1 == id
//@   ghost at call Get#1: found = result0; ok = result1
//@   ghost at return#1: assert[C08.child.returns-the-entry] result == found

// PID.LookupKey hashes the concatenation of address and id. hk names the hash
// of a byte string; it is assumed collision-free (hkinv). Nothing is assumed
// about the concatenation itself: ("h:40","00/x") and ("h:4000","/x") give the
// same string.
//@ ghost func hk(Str) Int
//@ ghost func hkinv(Int) Str
//@ axiom[hk.collision-free] forallS("Str", s, hkinv(hk(s)) == s, hk(s))

//@ func (pid *PID).LookupKey()
//@   trusted
//@   pure
//@   ensures result == hk(pid.Address + pid.ID)

// Engine.Spawn: options, (random) id, newProcess, then SpawnProc - the only
// way a spawned process gets registered and started.
//@ func (e *Engine).Spawn(p, kind, opts)
//@   props C10
//@   requires engInv(e) && forall(k, 0 <= k && k < len(opts) ==> opts[k] != nil)
//@   modifies heap except private, log, loglen, startPerm
//@   ghost at call newProcess#1 before: assume[C01.config.inbox-size-at-least-one] options.InboxSize >= 1
//@   ghost at call newProcess#1 before: assert[C10.spawn.process-for-this-engine] arg0 == e
//@   ghost at call SpawnProc#1 before: assert[C10.spawn.goes-through-the-registry] arg0 == e && arg1 == Processer(proc)
//@   ensures[C10.spawn.returns-a-pid] result != nil
//@   loop 1
//@     invariant rangeindex >= -1 && engInv(e)

// The restart budget an actor is spawned with is the one that was asked for
// (every value >= 0, zero included).
//@ func WithMaxRestarts(n)
//@   props C06
//@   pure

//@ func WithMaxRestarts$1(opts)
//@   props C06
//@   requires opts != nil
//@   modifies opts.MaxRestarts
//@   ensures[C06.config.budget-is-the-value-asked-for] n >= 0 ==> opts.MaxRestarts == n

//@ func (e *Engine).Address()
//@   props C19
//@   requires e != nil
//@   pure
//@   ensures result == e.address

// Engine.Poison / PoisonCtx: callers (cleanup, the cluster agent) use the
// abstract contract above (one PoisonSent entry carrying the returned
// context); the bodies are checked here: a graceful pill for exactly that pid.
//@ func (e *Engine).Poison!impl(pid)
//@   props C07
//@   requires engInv(e)
//@   modifies log, loglen
//@   ghost at call sendPoisonPill#1 before: assert[C07.poison.is-a-graceful-pill-for-that-pid] arg0 == e && arg2 == true && arg3 == pid
//@   ghost at call sendPoisonPill#1: inner = result
//@   ghost at return#1: assert[C07.poison.returns-the-pills-context] result == inner
//@   ensures !isnil(result) && logPrefix(entry(loglen))

//@ func (e *Engine).PoisonCtx(ctx, pid)
//@   props C07
//@   requires engInv(e)
//@   modifies log, loglen
//@   ghost at call sendPoisonPill#1 before: assert[C07.poisonctx.is-a-graceful-pill-for-that-pid] arg0 == e && arg1 == ctx && arg2 == true && arg3 == pid
//@   ensures !isnil(result) && logPrefix(entry(loglen))

// ---------------------------------------------------------------------------
// C01 glue: the induction step that composes the per-function facts into
// "the k-th delivery is the k-th accepted message". E = everything pushed so
// far (C14: Push appends), d = number delivered so far, the ring's view is
// E[d..e). One step of the single consumer: PopN returns the first k elements
// of the view (C14), Invoke delivers that batch in index order (C01). Then the
// first d+k deliveries are still exactly the first d+k pushed messages.
//@ lemma C01.glue.batch-step
//@   var E (Array Int Iface), Dl (Array Int Iface), Dl2 (Array Int Iface), B (Array Int Iface), d Int, e Int, k Int
//@   hyp 0 <= d && d <= e && 0 <= k && k <= e - d
//@   hyp forall(j, 0 <= j && j < d ==> Dl[j] == E[j])
//@   hyp forall(j, d <= j && j < d + k ==> B[j - d] == E[j])
//@   hyp forall(j, 0 <= j && j < d ==> Dl2[j] == Dl[j])
//@   hyp forall(j, d <= j && j < d + k ==> Dl2[j] == B[j - d])
//@   concl[C01.glue.batch-step] forall(j, 0 <= j && j < d + k ==> Dl2[j] == E[j])
