//go:build verif

// Contracts for package actor, checked by /verif/hv (comment-only file;
// compiled only with the build tag "verif", contains no code).

package actor

// Boundary of the remote package: handing a decoded message to the local
// engine. Trusted here (assumed: returns normally, writes nothing the stream
// reader reads again); its own behaviour is the subject of C01/C09.
//@ func (*Engine).SendLocal(pid, msg, sender)
//@   trusted
//@   modifies
