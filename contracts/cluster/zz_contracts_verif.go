//go:build verif

// Contracts for package cluster, checked by /verif/hv (comment-only file;
// compiled only with the build tag "verif", contains no code).

package cluster

// Representation invariant of a MemberSet: every entry is a non-nil member
// stored under its own ID.
//@ pred msInv(s) := s != nil && s.members != nil && forallS("Str", id, has(s.members, id) ==> s.members[id] != nil && s.members[id].ID == id)

//@ func (s *MemberSet).GetByHost(host)
//@   props C20
//@   requires msInv(s)
//@   modifies
//@   ensures[C20.getbyhost.member] result != nil ==> has(s.members, result.ID) && s.members[result.ID] == result && result.Host == host
//@   ensures[C20.getbyhost.none] result == nil ==> forallS("Str", id, has(s.members, id) ==> s.members[id].Host != host)
//@   loop 1
//@     invariant msInv(s)
//@     invariant theMember != nil ==> has(s.members, theMember.ID) && s.members[theMember.ID] == theMember && theMember.Host == host
//@     invariant theMember == nil ==> forallS("Str", id, has(s.members, id) && visited1[id] ==> s.members[id].Host != host)

//@ func (s *MemberSet).Contains(member)
//@   props C20
//@   requires s != nil
//@   requires[C20.contains.nonnil] member != nil
//@   modifies
//@   ensures[C20.contains.def] result == has(s.members, member.ID)

//@ func (s *MemberSet).Remove(member)
//@   props C20
//@   requires s != nil
//@   requires[C20.remove.nonnil] member != nil
//@   modifies mapof(s.members)
//@   ensures[C20.remove.only] forallS("Str", id, has(s.members, id) == (old(has(s.members, id)) && id != member.ID))
//@   ensures[C20.remove.kept] forallS("Str", id, has(s.members, id) ==> s.members[id] == old(s.members[id]))

//@ func (s *MemberSet).Add(member)
//@   props C20
//@   requires s != nil && s.members != nil
//@   requires[C20.add.nonnil] member != nil
//@   modifies mapof(s.members)
//@   ensures[C20.add.only] forallS("Str", id, has(s.members, id) == (old(has(s.members, id)) || id == member.ID))
//@   ensures[C20.add.value] s.members[member.ID] == member
//@   ensures[C20.add.kept] forallS("Str", id, id != member.ID ==> s.members[id] == old(s.members[id]))

// complete(sl, set): every member of the set occurs in the slice.
//@ pred complete(sl, set) := forallS("Str", id, has(set.members, id) ==> exists(k, 0 <= k && k < len(sl) && sl[k] == set.members[id]))
//@ pred provInv(s) := s != nil && msInv(s.members) && s.cluster != nil && engInv(s.cluster.engine)

//@ func (c *Cluster).PID()
//@   props C20
//@   requires c != nil
//@   pure
//@   ensures result == c.agentPID

// Telling the agent: one send of a *Members message listing every current
// member to the agent's PID (nothing when the agent PID is not set yet).
//@ func (s *SelfManaged).sendMembersToAgent()
//@   props C20
//@   requires provInv(s)
//@   nopanic[C20.agent.nopanic]
//@   modifies log, loglen
//@   ghost at call Send#1 before: assert[C20.agent.told-complete-list] arg0 == s.cluster.engine && arg1 == s.cluster.agentPID && istype(arg2, *Members) && arg2.(*Members) != nil && complete(arg2.(*Members).Members, s.members)
//@   ensures[C20.agent.told-once] (s.cluster.agentPID == nil ==> loglen == entry(loglen)) && (s.cluster.agentPID != nil ==> loglen == entry(loglen) + 1 && addressedTo(log[entry(loglen)], s.cluster.agentPID)) && logPrefix(entry(loglen))

//@ func (s *SelfManaged).removeMember(member)
//@   props C20
//@   requires provInv(s)
//@   nopanic[C20.leave.nopanic]
//@   modifies mapof(s.members.members), log, loglen
//@   ensures[C20.leave.agent-told] (member != nil && s.cluster.agentPID != nil ==> loglen == entry(loglen) + 1 && addressedTo(log[entry(loglen)], s.cluster.agentPID)) && (member == nil || s.cluster.agentPID == nil ==> loglen == entry(loglen)) && logPrefix(entry(loglen))
//@   ensures[C20.leave.non-member] (member == nil || !old(has(s.members.members, member.ID))) ==> forallS("Str", id, has(s.members.members, id) == old(has(s.members.members, id)))
//@   ensures[C20.leave.member] member != nil ==> forallS("Str", id, has(s.members.members, id) == (old(has(s.members.members, id)) && id != member.ID))
//@   ensures[C20.leave.kept] forallS("Str", id, has(s.members.members, id) ==> s.members.members[id] == old(s.members.members[id]))
//@   ensures[C20.leave.inv] msInv(s.members)

//@ func (s *SelfManaged).addMembers(members)
//@   props C20
//@   requires provInv(s)
//@   modifies mapof(s.members.members), log, loglen
//@   ensures[C20.add-all.agent-told] (s.cluster.agentPID != nil ==> loglen == entry(loglen) + 1 && addressedTo(log[entry(loglen)], s.cluster.agentPID)) && (s.cluster.agentPID == nil ==> loglen == entry(loglen)) && logPrefix(entry(loglen))
//@   requires forall(k, 0 <= k && k < len(members) ==> members[k] != nil)
//@   nopanic[C20.add-all.nopanic]
//@   ensures[C20.add-all.present] forall(k, 0 <= k && k < len(members) ==> has(s.members.members, members[k].ID))
//@   ensures[C20.add-all.superset] forallS("Str", id, old(has(s.members.members, id)) ==> has(s.members.members, id) && s.members.members[id] == old(s.members.members[id]))
//@   ensures[C20.add-all.inv] msInv(s.members)
//@   loop 1
//@     invariant rangeindex >= -1 && s.members == old(s.members)
//@     invariant msInv(s.members) && provInv(s)
//@     invariant forall(k, 0 <= k && k <= rangeindex && k < len(members) ==> has(s.members.members, members[k].ID))
//@     invariant forallS("Str", id, old(has(s.members.members, id)) ==> has(s.members.members, id) && s.members.members[id] == old(s.members.members[id]))
//@     modifies mapof(s.members.members)

// Slice: every member of the set, each exactly at one position. card/visited
// count of the map iteration bound the index; pos is a ghost witness
// (member ID -> position) for "every member occurs in the result".
//@ func (s *MemberSet).Slice()
//@   props C20 C18
//@   requires msInv(s)
//@   modifies
//@   ghost at entry: pos = arbitrary("(Array Str Int)")
//@   ghost at storeelem#1: pos = store(pos, member.ID, i)
//@   ensures[C20.slice.len] len(result) == len(s.members)
//@   ensures[C20.slice.sound] forall(k, 0 <= k && k < len(result) ==> result[k] != nil && has(s.members, result[k].ID) && s.members[result[k].ID] == result[k])
//@   ensures[C20.slice.complete] forallS("Str", id, has(s.members, id) ==> exists(k, 0 <= k && k < len(result) && result[k] == s.members[id]))
//@   ensures fresh(result)
//@   loop 1
//@     invariant msInv(s) && i == count1 && 0 <= i && i <= len(members) && len(members) == len(s.members) && members.off == 0 && fresh(members)
//@     invariant forall(k, 0 <= k && k < i ==> members[k] != nil && has(s.members, members[k].ID) && s.members[members[k].ID] == members[k])
//@     invariant forallS("Str", id, has(s.members, id) && visited1[id] ==> 0 <= pos[id] && pos[id] < i && members[pos[id]] == s.members[id])
//@     modifies elements(members)


// The member record a node announces for itself: its id, the engine's
// address, its region and exactly its registered kinds, in registration order.
//@ func (c *Cluster).Member()
//@   props C20 C18 C19
//@   requires c != nil && c.engine != nil
//@   modifies
//@   ensures result != nil && fresh(result)
//@   ensures[C18.member.self-description] result.ID == c.config.id && result.Host == c.engine.address && result.Region == c.config.region && len(result.Kinds) == len(c.kinds) && forall(k, 0 <= k && k < len(c.kinds) ==> result.Kinds[k] == c.kinds[k].name)
//@   loop 1
//@     invariant 0 <= idx && idx <= len(c.kinds) && len(kinds) == len(c.kinds) && fresh(kinds) && forall(k, 0 <= k && k < idx ==> kinds[k] == c.kinds[k].name)
//@     decreases len(c.kinds) - idx
//@     modifies elements(kinds)

// The cluster-side queries of C18: each is one request to the node's own
// agent and returns what the agent answered (the agent's answers are the
// getMembers / getKinds cases of Agent.Receive).
//@ func (c *Cluster).Members()
//@   props C18
//@   requires c != nil && engInv(c.engine)
//@   modifies heap except private, mapof(c.engine.Registry.lookup), log, loglen
//@   ghost at call Request#1 before: assert[C18.members.asks-the-own-agent] arg0 == c.engine && arg1 == c.agentPID && istype(arg2, getMembers)
//@   ghost at call Result#1: got = result0; gerr = result1
//@   ghost at return: assert[C18.members.returns-the-agents-answer] isnil(gerr) && istype(got, []*Member) ==> result == got.([]*Member)

//@ func (c *Cluster).HasKind(name)
//@   props C18
//@   requires c != nil && engInv(c.engine)
//@   modifies heap except private, mapof(c.engine.Registry.lookup), log, loglen
//@   ghost at call Request#1 before: assert[C18.haskind.asks-the-own-agent] arg0 == c.engine && arg1 == c.agentPID && istype(arg2, getKinds)
//@   ghost at call Result#1: got = result0; gerr = result1
//@   ghost at return: assert[C18.haskind.true-exactly-for-a-listed-kind] isnil(gerr) && istype(got, []string) ==> (result == exists(j, 0 <= j && j < len(got.([]string)) && got.([]string)[j] == name))
//@   ghost at return: assert[C18.haskind.false-without-an-answer] !isnil(gerr) ==> !result

//@ func (s *SelfManaged).start(c)
//@   trusted
//@   modifies heap

//@ func (s *SelfManaged).handleMemberPing(c)
//@   trusted
//@   modifies heap

//@ func (*Context).SendRepeat(pid, msg, interval)
//@   trusted
//@   modifies

// The provider actor. Only the three membership cases are verified (the
// precondition restricts the message to them); nothing is claimed about the
// other cases (Started/Stopped/ping: discovery, pinger, shutdown).
//@ func (s *SelfManaged).Receive(c)
//@   props C20
//@   prune
//@   requires provInv(s) && c != nil
//@   requires istype(c.message, *Handshake) || istype(c.message, *Members) || istype(c.message, memberLeave)
//@   requires istype(c.message, *Handshake) ==> c.message.(*Handshake) != nil && c.message.(*Handshake).Member != nil
//@   requires istype(c.message, *Members) ==> c.message.(*Members) != nil && forall(k, 0 <= k && k < len(c.message.(*Members).Members) ==> c.message.(*Members).Members[k] != nil)
//@   modifies mapof(s.members.members), log, loglen
//@   ghost at entry: gone = nilof("*Member")
//@   ghost at call GetByHost#1 before: assert[C20.leave.looks-up-reported-address] arg0 == s.members && arg1 == c.message.(memberLeave).ListenAddr
//@   ghost at call GetByHost#1: gone = result
//@   ghost at call removeMember#1 before: assert[C20.leave.removes-the-member-found] arg0 == s && arg1 == gone
//@   ghost at call Send#1 before: assert[C20.handshake.reply-to-sender-with-complete-list] arg0 == s.cluster.engine && arg1 == c.sender && istype(arg2, *Members) && arg2.(*Members) != nil &&
//@        complete(arg2.(*Members).Members, s.members) && has(s.members.members, c.message.(*Handshake).Member.ID)
//@   ensures[C20.handshake.adds-peer-keeps-others] istype(old(c.message), *Handshake) ==> has(s.members.members, old(c.message).(*Handshake).Member.ID) &&
//@        forallS("Str", id, old(has(s.members.members, id)) ==> has(s.members.members, id) && s.members.members[id] == old(s.members.members[id]))
//@   ensures[C20.handshake.agent-told-then-replied] istype(old(c.message), *Handshake) && c.sender != nil && s.cluster.agentPID != nil ==> loglen == entry(loglen) + 2 && addressedTo(log[entry(loglen)], s.cluster.agentPID) && addressedTo(log[entry(loglen) + 1], c.sender)
//@   ensures[C20.handshake.replied] istype(old(c.message), *Handshake) && c.sender != nil ==> loglen >= entry(loglen) + 1 && addressedTo(log[loglen - 1], c.sender)
//@   ensures[C20.members.adds-all-keeps-others] istype(old(c.message), *Members) ==> forall(k, 0 <= k && k < len(old(c.message).(*Members).Members) ==> has(s.members.members, old(c.message).(*Members).Members[k].ID)) &&
//@        forallS("Str", id, old(has(s.members.members, id)) ==> has(s.members.members, id) && s.members.members[id] == old(s.members.members[id]))
//@   ensures[C20.members.agent-told] istype(old(c.message), *Members) && s.cluster.agentPID != nil ==> loglen == entry(loglen) + 1 && addressedTo(log[entry(loglen)], s.cluster.agentPID)
//@   ensures[C20.leave.unknown-address-changes-nothing] istype(old(c.message), memberLeave) && forallS("Str", id, old(has(s.members.members, id)) ==> old(s.members.members[id].Host) != old(c.message).(memberLeave).ListenAddr) ==>
//@        loglen == entry(loglen) && forallS("Str", id, has(s.members.members, id) == old(has(s.members.members, id)) && (has(s.members.members, id) ==> s.members.members[id] == old(s.members.members[id])))
//@   ensures[C20.leave.member-with-that-address-removed] istype(old(c.message), memberLeave) && existsS("Str", id, old(has(s.members.members, id)) && old(s.members.members[id].Host) == old(c.message).(memberLeave).ListenAddr) ==>
//@        gone != nil && old(has(s.members.members, gone.ID)) && gone.Host == old(c.message).(memberLeave).ListenAddr && forallS("Str", id, has(s.members.members, id) == (old(has(s.members.members, id)) && id != gone.ID)) &&
//@        (s.cluster.agentPID != nil ==> loglen == entry(loglen) + 1 && addressedTo(log[entry(loglen)], s.cluster.agentPID))
//@   ensures[C20.leave.others-untouched] istype(old(c.message), memberLeave) ==> forallS("Str", id, has(s.members.members, id) ==> s.members.members[id] == old(s.members.members[id])) && msInv(s.members)

// ---------------------------------------------------------------------------
// Membership view of the agent (C18). ID sets of member slices are spoken of
// pointwise: "id occurs in sl" is exists(k, sl[k].ID == id).

//@ pred allNonNil(sl) := forall(k, 0 <= k && k < len(sl) ==> sl[k] != nil)

// NewMemberSet: the set of the listed members keyed by ID (a later entry with
// the same ID replaces an earlier one).
//@ func NewMemberSet(members)
//@   props C18
//@   requires allNonNil(members)
//@   modifies
//@   ensures[C18.newset.inv] fresh(result) && msInv(result)
//@   ensures[C18.newset.sound] forallS("Str", id, has(result.members, id) ==> exists(j, 0 <= j && j < len(members) && members[j] == result.members[id]))
//@   ensures[C18.newset.complete] forall(j, 0 <= j && j < len(members) ==> has(result.members, members[j].ID))
//@   ghost at entry: wit = arbitrary("(Array Str Int)")
//@   ghost at mapupdate#1: wit = store(wit, key, rangeindex)
//@   loop 1
//@     invariant rangeindex >= -1 && m != nil && fresh(m)
//@     invariant forallS("Str", id, has(m, id) ==> 0 <= wit[id] && wit[id] <= rangeindex && wit[id] < len(members) && members[wit[id]] == m[id] && m[id].ID == id)
//@     invariant forall(j, 0 <= j && j <= rangeindex && j < len(members) ==> has(m, members[j].ID))
//@     modifies mapof(m)

// Except: the members of s whose ID does not occur in the argument, each once.
//@ func (s *MemberSet).Except(members)
//@   props C18
//@   requires msInv(s) && allNonNil(members)
//@   modifies
//@   ensures[C18.except.sound] forall(k, 0 <= k && k < len(result) ==> result[k] != nil && has(s.members, result[k].ID) && s.members[result[k].ID] == result[k] && forall(j, 0 <= j && j < len(members) ==> members[j].ID != result[k].ID))
//@   ensures[C18.except.complete] forallS("Str", id, has(s.members, id) && forall(j, 0 <= j && j < len(members) ==> members[j].ID != id) ==> exists(k, 0 <= k && k < len(result) && result[k] == s.members[id]))
//@   ensures[C18.except.no-duplicates] forall(k1, k2, 0 <= k1 && k1 < k2 && k2 < len(result) ==> result[k1].ID != result[k2].ID)
//@   ensures fresh(result) || len(result) == 0
//@   ghost at entry: wit = arbitrary("(Array Str Int)"); pos = arbitrary("(Array Str Int)")
//@   ghost at mapupdate#1: wit = store(wit, key, rangeindex)
//@   ghost at call append#1 before: pos = store(pos, member.ID, len(except))
//@   loop 1
//@     invariant rangeindex >= -1 && m != nil && fresh(m) && msInv(s) && len(except) == 0
//@     invariant forallS("Str", id, has(m, id) ==> 0 <= wit[id] && wit[id] <= rangeindex && wit[id] < len(members) && members[wit[id]].ID == id)
//@     invariant forall(j, 0 <= j && j <= rangeindex && j < len(members) ==> has(m, members[j].ID))
//@     modifies mapof(m)
//@   loop 2
//@     invariant msInv(s) && m != nil
//@     invariant forallS("Str", id, has(m, id) ==> 0 <= wit[id] && wit[id] < len(members) && members[wit[id]].ID == id)
//@     invariant forall(j, 0 <= j && j < len(members) ==> has(m, members[j].ID))
//@     invariant forall(k, 0 <= k && k < len(except) ==> except[k] != nil && visited1[except[k].ID] && has(s.members, except[k].ID) && s.members[except[k].ID] == except[k] && !has(m, except[k].ID))
//@     invariant forallS("Str", id, visited1[id] && has(s.members, id) && !has(m, id) ==> 0 <= pos[id] && pos[id] < len(except) && except[pos[id]] == s.members[id])
//@     invariant forall(k1, k2, 0 <= k1 && k1 < k2 && k2 < len(except) ==> except[k1].ID != except[k2].ID)
//@     invariant fresh(except) && except.arr != members.arr
//@     modifies elements(except)

//@ pred agentInv(a) := a != nil && msInv(a.members) && a.kinds != nil && a.activated != nil && a.cluster != nil && engInv(a.cluster.engine) &&
//@      forallS("Str", id, has(a.activated, id) ==> a.activated[id] != nil && a.activated[id].ID == id)
//@ pred isJoinEvent(ev) := isev(ev, Broadcast) && istype(ev.Broadcast_msg, MemberJoinEvent)
//@ pred isLeaveEvent(ev) := isev(ev, Broadcast) && istype(ev.Broadcast_msg, MemberLeaveEvent)

//@ func (m *Member).PID()
//@   props C19 C18
//@   requires m != nil
//@   modifies
//@   ensures[C19.member.agent-pid] result != nil && fresh(result) && result.Address == m.Host && result.ID == "cluster/" + m.ID

//@ func (a *Agent).memberJoin(member)
//@   props C18 C19
//@   requires agentInv(a) && member != nil
//@   nopanic[C18.join.nopanic]
//@   modifies mapof(a.members.members), mapof(a.kinds), log, loglen
//@   ensures[C18.join.member-added] forallS("Str", id, has(a.members.members, id) == (old(has(a.members.members, id)) || id == member.ID)) && a.members.members[member.ID] == member &&
//@        forallS("Str", id, id != member.ID ==> a.members.members[id] == old(a.members.members[id]))
//@   ensures[C18.join.kinds-added] forall(j, 0 <= j && j < len(member.Kinds) ==> has(a.kinds, member.Kinds[j])) && forallS("Str", k, old(has(a.kinds, k)) ==> has(a.kinds, k))
//@   ensures[C18.join.kinds-nothing-else] forallS("Str", k, has(a.kinds, k) && !old(has(a.kinds, k)) ==> exists(j, 0 <= j && j < len(member.Kinds) && member.Kinds[j] == k))
//@   ensures[C18.join.exactly-one-join-event] log[loglen - 1] == Broadcast(a.cluster.engine, MemberJoinEvent{Member: member}) && (loglen == entry(loglen) + 1 || loglen == entry(loglen) + 2) &&
//@        (loglen == entry(loglen) + 2 ==> !isJoinEvent(log[entry(loglen)]) && !isLeaveEvent(log[entry(loglen)])) && logPrefix(entry(loglen))
//@   ensures[C18.join.inv] agentInv(a)
//@   ghost at entry: kw = arbitrary("(Array Str Int)"); ap = arbitrary("(Array Str Int)")
//@   ghost at mapupdate#1: kw = store(kw, key, rangeindex)
//@   ghost at call append#1 before: ap = store(ap, key1, len(actorInfos))
//@   ghost at call Send#1 before: assert[C19.join.topology-to-the-joiner-lists-every-activation] arg0 == a.cluster.engine && istype(arg2, *ActorTopology) && arg2.(*ActorTopology) != nil &&
//@        forallS("Str", id, has(a.activated, id) ==> exists(k, 0 <= k && k < len(arg2.(*ActorTopology).Actors) && arg2.(*ActorTopology).Actors[k] != nil && arg2.(*ActorTopology).Actors[k].PID == a.activated[id]))
//@   ghost at call BroadcastEvent#1 before: assert[C19.join.topology-sent-whenever-something-is-active] len(a.activated) > 0 ==> loglen == entry(loglen) + 1
//@   loop 1
//@     invariant rangeindex >= -1 && agentInv(a)
//@     invariant forall(j, 0 <= j && j <= rangeindex && j < len(member.Kinds) ==> has(a.kinds, member.Kinds[j])) && forallS("Str", k, old(has(a.kinds, k)) ==> has(a.kinds, k))
//@     invariant forallS("Str", k, has(a.kinds, k) && !old(has(a.kinds, k)) ==> 0 <= kw[k] && kw[k] <= rangeindex && kw[k] < len(member.Kinds) && member.Kinds[kw[k]] == k)
//@     modifies mapof(a.kinds)
//@   loop 2
//@     invariant[C18.join.l2.inv] agentInv(a)
//@     invariant[C18.join.l2.fresh] fresh(actorInfos)
//@     invariant[C19.join.l2.listed] forallS("Str", id, visited1[id] && has(a.activated, id) ==> 0 <= ap[id] && ap[id] < len(actorInfos) && actorInfos[ap[id]] != nil && actorInfos[ap[id]].PID == a.activated[id])
//@     invariant[C19.join.l2.count] len(actorInfos) == count1 && forall(k, 0 <= k && k < len(actorInfos) ==> actorInfos[k] != nil)
//@     modifies elements(actorInfos)

//@ func (a *Agent).removeActivated(pid)
//@   props C18 C19
//@   requires a != nil && a.activated != nil && pid != nil
//@   modifies mapof(a.activated)
//@   ensures[C19.activated.removed] forallS("Str", id, has(a.activated, id) == (old(has(a.activated, id)) && id != pid.ID)) && forallS("Str", id, a.activated[id] == old(a.activated[id]))

// MemberSet.ForEach is verified only as inlined into Agent.rebuildKinds: its
// loop invariant speaks about that caller's state through the ghost locals MS
// (the member set) and KM (the kinds map) set at rebuildKinds' entry, and the
// witnesses kwm/kwj (for a kind: a visited member advertising it, and where).
//@ func (s *MemberSet).ForEach(fun)
//@   inline
//@   loop 1
//@     invariant[C18.kinds.loop.inv] msInv(MS) && KM != nil
//@     invariant[C18.kinds.loop.complete] forallS("Str", id, visited1[id] && has(MS.members, id) ==> forall(j, 0 <= j && j < len(MS.members[id].Kinds) ==> has(KM, MS.members[id].Kinds[j])))
//@     invariant[C18.kinds.loop.sound] forallS("Str", k, has(KM, k) ==> visited1[kwm[k]] && has(MS.members, kwm[k]) && 0 <= kwj[k] && kwj[k] < len(MS.members[kwm[k]].Kinds) && MS.members[kwm[k]].Kinds[kwj[k]] == k)
//@     modifies mapof(KM)

//@ func (*Agent).rebuildKinds$1(m)
//@   inline
//@   ghost at mapupdate#1: kwm = store(kwm, key, m.ID); kwj = store(kwj, key, rangeindex)
//@   loop 1
//@     invariant[C18.kinds.inner.inv] rangeindex >= -1 && msInv(MS) && KM != nil && has(MS.members, key1) && MS.members[key1] == m && visited1[key1]
//@     invariant[C18.kinds.inner.current] forall(j, 0 <= j && j <= rangeindex && j < len(m.Kinds) ==> has(KM, m.Kinds[j]))
//@     invariant[C18.kinds.inner.complete] forallS("Str", id, visited1[id] && id != key1 && has(MS.members, id) ==> forall(j, 0 <= j && j < len(MS.members[id].Kinds) ==> has(KM, MS.members[id].Kinds[j])))
//@     invariant[C18.kinds.inner.sound] forallS("Str", k, has(KM, k) ==> visited1[kwm[k]] && has(MS.members, kwm[k]) && 0 <= kwj[k] && kwj[k] < len(MS.members[kwm[k]].Kinds) && MS.members[kwm[k]].Kinds[kwj[k]] == k)
//@     modifies mapof(KM)

// rebuildKinds: afterwards the kinds map holds exactly the kinds advertised
// by the members of the current view.
//@ func (a *Agent).rebuildKinds()
//@   props C18
//@   requires agentInv(a)
//@   modifies mapof(a.kinds)
//@   ghost at entry: MS = a.members; KM = a.kinds; kwm = arbitrary("(Array Str Str)"); kwj = arbitrary("(Array Str Int)")
//@   ensures[C18.kinds.every-advertised-kind] forallS("Str", id, has(a.members.members, id) ==> forall(j, 0 <= j && j < len(a.members.members[id].Kinds) ==> has(a.kinds, a.members.members[id].Kinds[j])))
//@   ensures[C18.kinds.only-advertised-kinds] forallS("Str", k, has(a.kinds, k) ==> existsS("Str", id, has(a.members.members, id) && exists(j, 0 <= j && j < len(a.members.members[id].Kinds) && a.members.members[id].Kinds[j] == k)))
//@   ensures[C18.kinds.inv] agentInv(a)

//@ func (a *Agent).memberLeave(member)
//@   props C18 C19
//@   requires agentInv(a) && member != nil
//@   nopanic[C18.leave.nopanic]
//@   modifies mapof(a.members.members), mapof(a.kinds), mapof(a.activated), log, loglen
//@   ensures[C18.leave.member-removed] forallS("Str", id, has(a.members.members, id) == (old(has(a.members.members, id)) && id != member.ID)) && forallS("Str", id, has(a.members.members, id) ==> a.members.members[id] == old(a.members.members[id]))
//@   ensures[C18.leave.kinds-are-those-of-the-remaining-members] forallS("Str", id, has(a.members.members, id) ==> forall(j, 0 <= j && j < len(a.members.members[id].Kinds) ==> has(a.kinds, a.members.members[id].Kinds[j]))) &&
//@        forallS("Str", k, has(a.kinds, k) ==> existsS("Str", id, has(a.members.members, id) && exists(j, 0 <= j && j < len(a.members.members[id].Kinds) && a.members.members[id].Kinds[j] == k)))
//@   ensures[C18.leave.exactly-one-leave-event] loglen == entry(loglen) + 1 && log[entry(loglen)] == Broadcast(a.cluster.engine, MemberLeaveEvent{Member: member}) && logPrefix(entry(loglen))
//@   ensures[C19.leave.purges-activations-hosted-there] forallS("Str", id, has(a.activated, id) == (old(has(a.activated, id)) && old(a.activated[id]).Address != member.Host)) && forallS("Str", id, has(a.activated, id) ==> a.activated[id] == old(a.activated[id]))
//@   ensures[C18.leave.inv] agentInv(a)
//@   loop 1
//@     invariant agentInv(a)
//@     invariant[C19.leave.loop.kept] forallS("Str", id, has(a.activated, id) ==> old(has(a.activated, id)) && a.activated[id] == old(a.activated[id]))
//@     invariant[C19.leave.loop.purged] forallS("Str", id, old(has(a.activated, id)) && visited1[id] && old(a.activated[id]).Address == member.Host ==> !has(a.activated, id))
//@     invariant[C19.leave.loop.others] forallS("Str", id, old(has(a.activated, id)) && !has(a.activated, id) ==> old(a.activated[id]).Address == member.Host)
//@     modifies mapof(a.activated)

// handleMembers: after a snapshot the view equals the snapshot by member ID;
// memberJoin is called once for every snapshot ID that was not in the view
// (and for nothing else), memberLeave once for every view member whose ID is
// not in the snapshot (and for nothing else); each of those publishes exactly
// one MemberJoinEvent / MemberLeaveEvent (their own contracts).
//@ func (a *Agent).handleMembers(members)
//@   props C18
//@   requires agentInv(a) && allNonNil(members)
//@   nopanic[C18.members.nopanic]
//@   modifies mapof(a.members.members), mapof(a.kinds), mapof(a.activated), log, loglen
//@   ghost at entry: jw = arbitrary("(Array Str Int)"); lw = arbitrary("(Array Str Int)")
//@   ghost at call memberJoin#1 before: assert[C18.members.joins-only-new-ids-of-the-snapshot] arg0 == a && !old(has(a.members.members, arg1.ID)) && !has(a.members.members, arg1.ID) && exists(j, 0 <= j && j < len(members) && members[j].ID == arg1.ID)
//@   ghost at call memberJoin#1: jw = store(jw, member.ID, rangeindex)
//@   ghost at call memberLeave#1 before: assert[C18.members.leaves-only-view-members-missing-from-the-snapshot] arg0 == a && old(has(a.members.members, arg1.ID)) && old(a.members.members[arg1.ID]) == arg1 && has(a.members.members, arg1.ID) && forall(j, 0 <= j && j < len(members) ==> members[j].ID != arg1.ID)
//@   ghost at call memberLeave#1: lw = store(lw, member.ID, rangeindex)
//@   ensures[C18.members.view-equals-snapshot] forallS("Str", id, has(a.members.members, id) ==> exists(j, 0 <= j && j < len(members) && members[j].ID == id)) && forall(j, 0 <= j && j < len(members) ==> has(a.members.members, members[j].ID))
//@   ensures[C18.members.stayers-untouched] forallS("Str", id, has(a.members.members, id) && old(has(a.members.members, id)) ==> a.members.members[id] == old(a.members.members[id]))
//@   ensures[C18.members.inv] agentInv(a)
//@   loop 1
//@     invariant rangeindex >= -1 && agentInv(a) && allNonNil(joined) && allNonNil(left)
//@     invariant[C18.members.l1.joined-are-new] forall(k, 0 <= k && k < len(joined) ==> !old(has(a.members.members, joined[k].ID)) && exists(j, 0 <= j && j < len(members) && members[j].ID == joined[k].ID))
//@     invariant[C18.members.l1.joined-distinct] forall(k1, k2, 0 <= k1 && k1 < k2 && k2 < len(joined) ==> joined[k1].ID != joined[k2].ID)
//@     invariant[C18.members.l1.joined-complete] forall(j, 0 <= j && j < len(members) ==> old(has(a.members.members, members[j].ID)) || exists(k, 0 <= k && k < len(joined) && joined[k].ID == members[j].ID))
//@     invariant[C18.members.l1.left-are-old] forall(k, 0 <= k && k < len(left) ==> old(has(a.members.members, left[k].ID)) && old(a.members.members[left[k].ID]) == left[k] && forall(j, 0 <= j && j < len(members) ==> members[j].ID != left[k].ID))
//@     invariant[C18.members.l1.left-complete] forallS("Str", id, old(has(a.members.members, id)) && forall(j, 0 <= j && j < len(members) ==> members[j].ID != id) ==> exists(k, 0 <= k && k < len(left) && left[k] == old(a.members.members[id])))
//@     invariant[C18.members.l1.old-kept] forallS("Str", id, old(has(a.members.members, id)) ==> has(a.members.members, id) && a.members.members[id] == old(a.members.members[id]))
//@     invariant[C18.members.l1.added] forall(k, 0 <= k && k <= rangeindex && k < len(joined) ==> has(a.members.members, joined[k].ID))
//@     invariant[C18.members.l1.nothing-else] forallS("Str", id, has(a.members.members, id) && !old(has(a.members.members, id)) ==> 0 <= jw[id] && jw[id] <= rangeindex && jw[id] < len(joined) && joined[jw[id]].ID == id)
//@     modifies mapof(a.members.members), mapof(a.kinds)
//@   loop 2
//@     invariant rangeindex >= -1 && agentInv(a) && allNonNil(left)
//@     invariant[C18.members.l2.left-are-old] forall(k, 0 <= k && k < len(left) ==> old(has(a.members.members, left[k].ID)) && old(a.members.members[left[k].ID]) == left[k] && forall(j, 0 <= j && j < len(members) ==> members[j].ID != left[k].ID))
//@     invariant[C18.members.l2.left-distinct] forall(k1, k2, 0 <= k1 && k1 < k2 && k2 < len(left) ==> left[k1].ID != left[k2].ID)
//@     invariant[C18.members.l2.left-complete] forallS("Str", id, old(has(a.members.members, id)) && forall(j, 0 <= j && j < len(members) ==> members[j].ID != id) ==> exists(k, 0 <= k && k < len(left) && left[k] == old(a.members.members[id])))
//@     invariant[C18.members.l2.snapshot-present] forall(j, 0 <= j && j < len(members) ==> has(a.members.members, members[j].ID))
//@     invariant[C18.members.l2.new-from-snapshot] forallS("Str", id, has(a.members.members, id) && !old(has(a.members.members, id)) ==> exists(j, 0 <= j && j < len(members) && members[j].ID == id))
//@     invariant[C18.members.l2.old-values] forallS("Str", id, has(a.members.members, id) && old(has(a.members.members, id)) ==> a.members.members[id] == old(a.members.members[id]))
//@     invariant[C18.members.l2.removed] forall(k, 0 <= k && k <= rangeindex && k < len(left) ==> !has(a.members.members, left[k].ID))
//@     invariant[C18.members.l2.not-yet-removed] forall(k, rangeindex < k && k < len(left) ==> has(a.members.members, left[k].ID))
//@     invariant[C18.members.l2.only-left-removed] forallS("Str", id, old(has(a.members.members, id)) && !has(a.members.members, id) ==> 0 <= lw[id] && lw[id] <= rangeindex && lw[id] < len(left) && left[lw[id]].ID == id)
//@     modifies mapof(a.members.members), mapof(a.kinds), mapof(a.activated)

// The agent actor: dispatch of the membership messages (C18) and of the
// activation messages (C19) to their handlers, with the handler's argument
// taken unchanged from the message. Started/Stopped/getKinds/getActive are not
// part of this contract (the precondition excludes them).
//@ func (a *Agent).Receive(c)
//@   props C18 C19
//@   prune
//@   requires agentInv(a) && a.localKinds != nil && c != nil && engInv(c.engine)
//@   requires istype(c.message, *Members) || istype(c.message, getMembers) || istype(c.message, getKinds) || istype(c.message, *Activation) || istype(c.message, *Deactivation) || istype(c.message, *ActorTopology) || istype(c.message, *ActivationRequest) || istype(c.message, deactivate)
//@   requires istype(c.message, *Members) ==> c.message.(*Members) != nil && allNonNil(c.message.(*Members).Members)
//@   requires istype(c.message, *Activation) ==> c.message.(*Activation) != nil && c.message.(*Activation).PID != nil
//@   requires istype(c.message, *Deactivation) ==> c.message.(*Deactivation) != nil && c.message.(*Deactivation).PID != nil
//@   requires istype(c.message, *ActorTopology) ==> c.message.(*ActorTopology) != nil && forall(k, 0 <= k && k < len(c.message.(*ActorTopology).Actors) ==> c.message.(*ActorTopology).Actors[k] != nil && c.message.(*ActorTopology).Actors[k].PID != nil)
//@   requires istype(c.message, *ActivationRequest) ==> c.message.(*ActivationRequest) != nil
//@   modifies heap except private, mapof(a.members.members), mapof(a.kinds), mapof(a.activated), log, loglen, startPerm
//@   ghost at call handleMembers#1 before: assert[C18.receive.snapshot-handled] arg0 == a && arg1 == c.message.(*Members).Members
//@   ghost at call Respond#3 before: assert[C18.receive.members-query-answered-with-the-view] arg0 == c && complete(arg1.([]*Member), a.members) &&
//@        forall(k, 0 <= k && k < len(arg1.([]*Member)) ==> has(a.members.members, arg1.([]*Member)[k].ID) && a.members.members[arg1.([]*Member)[k].ID] == arg1.([]*Member)[k]) && len(arg1.([]*Member)) == len(a.members.members)
//@   ghost at call handleActivation#1 before: assert[C19.receive.activation] arg0 == a && arg1 == c.message.(*Activation)
//@   ghost at call handleDeactivation#1 before: assert[C19.receive.deactivation] arg0 == a && arg1 == c.message.(*Deactivation)
//@   ghost at call handleActorTopology#1 before: assert[C19.receive.topology] arg0 == a && arg1 == c.message.(*ActorTopology)
//@   ghost at call handleActivationRequest#1 before: assert[C19.receive.activation-request] arg0 == a && arg1 == c.message.(*ActivationRequest)
//@   ghost at call handleActivationRequest#1: areq = result
//@   ghost at call Respond#2 before: assert[C19.receive.activation-request-answered] arg0 == c && arg1 == any(areq)
//@   ghost at call bcast#1 before: assert[C19.receive.deactivate-announced-to-the-cluster] arg0 == a && istype(arg1, *Deactivation) && arg1.(*Deactivation) != nil && arg1.(*Deactivation).PID == c.message.(deactivate).pid
//@   ghost at entry: kat = arbitrary("(Array Str Int)")
//@   ghost at entry: did = 0; replied = 0
//@   ghost at call handleActivation#1: did = 1
//@   ghost at call handleDeactivation#1: did = 2
//@   ghost at call handleActorTopology#1: did = 3
//@   ghost at call handleActivationRequest#1: did = 4
//@   ghost at call bcast#1: did = 5
//@   ghost at call Respond: replied = replied + 1
//@   ghost at return: assert[C19.receive.every-message-reaches-its-handler] (istype(c.message, *Activation) ==> did == 1) && (istype(c.message, *Deactivation) ==> did == 2) && (istype(c.message, *ActorTopology) ==> did == 3) &&
//@        (istype(c.message, *ActivationRequest) ==> did == 4) && (istype(c.message, deactivate) ==> did == 5)
//@   ghost at return: assert[C18.receive.queries-answered-exactly-once] (istype(c.message, getMembers) || istype(c.message, getKinds) || istype(c.message, *ActivationRequest) ==> replied == 1) &&
//@        (istype(c.message, *Members) || istype(c.message, *Activation) || istype(c.message, *Deactivation) || istype(c.message, *ActorTopology) || istype(c.message, deactivate) ==> replied == 0)
//@   ghost at storeelem#1: kat = store(kat, kind, i)
//@   ghost at call Respond#4 before: assert[C18.receive.kinds-query-answered-with-exactly-the-kinds] arg0 == c && len(arg1.([]string)) == len(a.kinds) &&
//@        forallS("Str", k, has(a.kinds, k) ==> exists(j, 0 <= j && j < len(arg1.([]string)) && arg1.([]string)[j] == k)) && forall(j, 0 <= j && j < len(arg1.([]string)) ==> has(a.kinds, arg1.([]string)[j]))
//@   ensures[C18.receive.view-equals-snapshot] istype(old(c.message), *Members) ==> forallS("Str", id, has(a.members.members, id) ==> exists(j, 0 <= j && j < len(old(c.message).(*Members).Members) && old(c.message).(*Members).Members[j].ID == id)) &&
//@        forall(j, 0 <= j && j < len(old(c.message).(*Members).Members) ==> has(a.members.members, old(c.message).(*Members).Members[j].ID))
//@   ensures[C18.receive.query-changes-nothing] istype(old(c.message), getMembers) ==> forallS("Str", id, has(a.members.members, id) == old(has(a.members.members, id)))
//@   loop 1
//@     invariant[C18.kindsquery.inv.base] agentInv(a) && fresh(kinds) && len(kinds) == len(a.kinds) && i == count1 && 0 <= i && i <= len(a.kinds)
//@     invariant[C18.kindsquery.inv.listed] forallS("Str", k, visited1[k] && has(a.kinds, k) ==> 0 <= kat[k] && kat[k] < i && kinds[kat[k]] == k)
//@     invariant[C18.kindsquery.inv.only-kinds] forall(j, 0 <= j && j < i ==> has(a.kinds, kinds[j]))
//@     modifies elements(kinds)

// ---------------------------------------------------------------------------
// Activations (C19, partial): the agent's map id -> PID of the actors known
// cluster wide, the activation decision, and what a joining member is told.

//@ event Bcast(a Ref as *Agent, msg Iface)
//@ event LocalActivation(a Ref as *Agent, kind Str, id Str)

//@ functype SelectMemberFunc(details)
//@   pure

//@ func (a *Agent).bcast(msg)
//@   trusted
//@   modifies
//@   emits Bcast(a, msg)

// What one Bcast entry stands for is checked against bcast's body: every
// member of the view is sent msg exactly once, to a PID naming that member's
// agent (host, "cluster/"+id), and nothing else is sent. bat[id] = log
// position of the send to member id, bsrc[k] = member whose send is at
// position k (a bijection, as in eventStream.Receive); btp[k] = the PID used.
//@ pred memberSendAt(e, m, msg, pid, k) := pid != nil && pid.Address == m.Host && pid.ID == "cluster/" + m.ID && sendEffect(e, pid, msg, nil, k, k + 1)

//@ func (a *Agent).bcast!impl(msg)
//@   props C19 C18
//@   requires agentInv(a)
//@   nopanic[C19.bcast.nopanic]
//@   modifies log, loglen
//@   ghost at entry: BA = a; BM = msg; lb = loglen; bat = arbitrary("(Array Str Int)"); bsrc = arbitrary("(Array Int Str)"); btp = arbitrary("(Array Int Ref)")
//@   ghost at return#1: assert[C19.bcast.every-member-once] forallS("Str", id, has(a.members.members, id) ==> lb <= bat[id] && bat[id] < loglen && bsrc[bat[id]] == id && memberSendAt(a.cluster.engine, a.members.members[id], msg, typed(btp[bat[id]], "*actor.PID"), bat[id]))
//@   ghost at return#1: assert[C19.bcast.nothing-else] lb == entry(loglen) && logPrefix(lb) && forall(k, lb <= k && k < loglen ==> has(a.members.members, bsrc[k]) && bat[bsrc[k]] == k)

//@ func (s *MemberSet).ForEach(fun) in (*Agent).bcast
//@   inline
//@   loop 1
//@     invariant[C19.bcast.inv.base] agentInv(BA) && lb == entry(loglen) && loglen >= lb && logPrefix(lb)
//@     invariant[C19.bcast.inv.at] forallS("Str", id, visited1[id] && has(BA.members.members, id) ==> lb <= bat[id] && bat[id] < loglen && bsrc[bat[id]] == id && memberSendAt(BA.cluster.engine, BA.members.members[id], BM, typed(btp[bat[id]], "*actor.PID"), bat[id]))
//@     invariant[C19.bcast.inv.src] forall(k, lb <= k && k < loglen ==> visited1[bsrc[k]] && has(BA.members.members, bsrc[k]) && bat[bsrc[k]] == k)
//@     modifies log, loglen

//@ func (*Agent).bcast$1(member)
//@   inline
//@   ghost at call PID#1: btp = store(btp, loglen, result)
//@   ghost at call Send#1: bat = store(bat, key1, loglen - 1); bsrc = store(bsrc, loglen - 1, key1)

//@ func (a *Agent).addActivated(pid)
//@   props C19
//@   requires a != nil && a.activated != nil && pid != nil
//@   modifies mapof(a.activated)
//@   ensures[C19.activated.added-unless-known] forallS("Str", id, has(a.activated, id) == (old(has(a.activated, id)) || id == pid.ID)) &&
//@        (old(has(a.activated, pid.ID)) ==> a.activated[pid.ID] == old(a.activated[pid.ID])) && (!old(has(a.activated, pid.ID)) ==> a.activated[pid.ID] == pid) &&
//@        forallS("Str", id, id != pid.ID ==> a.activated[id] == old(a.activated[id]))

//@ func (a *Agent).hasKindLocal(name)
//@   props C19
//@   requires a != nil
//@   modifies
//@   ensures[C19.haskindlocal] result == has(a.localKinds, name)

//@ func (a *Agent).handleActivation(msg)
//@   props C19
//@   requires agentInv(a) && msg != nil && msg.PID != nil
//@   modifies mapof(a.activated), log, loglen
//@   ensures[C19.on-activation.recorded-unless-known] has(a.activated, msg.PID.ID) && (old(has(a.activated, msg.PID.ID)) ==> a.activated[msg.PID.ID] == old(a.activated[msg.PID.ID])) && (!old(has(a.activated, msg.PID.ID)) ==> a.activated[msg.PID.ID] == msg.PID) &&
//@        forallS("Str", id, id != msg.PID.ID ==> has(a.activated, id) == old(has(a.activated, id)) && a.activated[id] == old(a.activated[id]))
//@   ensures[C19.on-activation.event] loglen == entry(loglen) + 1 && log[entry(loglen)] == Broadcast(a.cluster.engine, ActivationEvent{PID: msg.PID})

//@ func (a *Agent).handleDeactivation(msg)
//@   props C19
//@   requires agentInv(a) && msg != nil && msg.PID != nil
//@   modifies mapof(a.activated), log, loglen
//@   ensures[C19.on-deactivation.forgotten] forallS("Str", id, has(a.activated, id) == (old(has(a.activated, id)) && id != msg.PID.ID)) && forallS("Str", id, a.activated[id] == old(a.activated[id]))
//@   ensures[C19.on-deactivation.actor-poisoned-and-event] loglen == entry(loglen) + 2 && isev(log[entry(loglen)], PoisonSent) && log[entry(loglen)].PoisonSent_e == a.cluster.engine && log[entry(loglen)].PoisonSent_pid == msg.PID &&
//@        log[entry(loglen) + 1] == Broadcast(a.cluster.engine, DeactivationEvent{PID: msg.PID})

//@ func (a *Agent).handleActorTopology(msg)
//@   props C19
//@   requires agentInv(a) && msg != nil && forall(k, 0 <= k && k < len(msg.Actors) ==> msg.Actors[k] != nil && msg.Actors[k].PID != nil)
//@   modifies mapof(a.activated)
//@   ghost at entry: tw = arbitrary("(Array Str Int)")
//@   ghost at call addActivated#1: tw = store(tw, actorInfo.PID.ID, rangeindex)
//@   ensures[C19.on-topology.all-recorded] forall(k, 0 <= k && k < len(msg.Actors) ==> has(a.activated, msg.Actors[k].PID.ID))
//@   ensures[C19.on-topology.known-ids-keep-their-pid] forallS("Str", id, old(has(a.activated, id)) ==> has(a.activated, id) && a.activated[id] == old(a.activated[id]))
//@   ensures[C19.on-topology.nothing-else] forallS("Str", id, has(a.activated, id) && !old(has(a.activated, id)) ==> exists(k, 0 <= k && k < len(msg.Actors) && msg.Actors[k].PID.ID == id))
//@   loop 1
//@     invariant rangeindex >= -1 && a != nil && a.activated != nil
//@     invariant forall(k, 0 <= k && k <= rangeindex && k < len(msg.Actors) ==> has(a.activated, msg.Actors[k].PID.ID))
//@     invariant forallS("Str", id, old(has(a.activated, id)) ==> has(a.activated, id) && a.activated[id] == old(a.activated[id]))
//@     invariant forallS("Str", id, has(a.activated, id) && !old(has(a.activated, id)) ==> 0 <= tw[id] && tw[id] <= rangeindex && tw[id] < len(msg.Actors) && msg.Actors[tw[id]].PID.ID == id)
//@     modifies mapof(a.activated)

// An activation request: spawned here only if the kind is registered on this
// node, under exactly the requested kind and id.
//@ func (a *Agent).handleActivationRequest(msg)
//@   props C19
//@   requires agentInv(a) && msg != nil && a.localKinds != nil
//@   modifies heap except private, log, loglen, startPerm
//@   ghost at call Spawn#1 before: assert[C19.request.spawns-the-registered-producer-under-kind-and-id] arg0 == a.cluster.engine && has(a.localKinds, msg.Kind) && arg1 == a.localKinds[msg.Kind].producer && arg2 == msg.Kind
//@   ghost at call Spawn#1: spawnedPID = result
//@   ghost at call WithID#1 before: assert[C19.request.with-the-requested-id] arg0 == msg.ID
//@   ensures[C19.request.refused-when-kind-not-local] !old(has(a.localKinds, msg.Kind)) ==> result != nil && !result.Success && loglen == entry(loglen)
//@   ensures[C19.request.success-carries-the-pid] old(has(a.localKinds, msg.Kind)) ==> result != nil && result.Success && result.PID != nil

//@ pred advertises(m, kind) := exists(j, 0 <= j && j < len(m.Kinds) && m.Kinds[j] == kind)

//@ func (m *Member).HasKind(kind)
//@   props C19
//@   requires m != nil
//@   modifies
//@   ensures[C19.haskind] (result ==> advertises(m, kind)) && (!result ==> forall(j, 0 <= j && j < len(m.Kinds) ==> m.Kinds[j] != kind))
//@   loop 1
//@     invariant rangeindex >= -1 && forall(j, 0 <= j && j <= rangeindex && j < len(m.Kinds) ==> m.Kinds[j] != kind)

//@ func (s *MemberSet).FilterByKind(kind)
//@   props C19
//@   requires msInv(s)
//@   modifies
//@   ghost at entry: pos = arbitrary("(Array Str Int)")
//@   ghost at call append#1 before: pos = store(pos, member.ID, len(members))
//@   ensures[C19.filter.only-capable-members] forall(k, 0 <= k && k < len(result) ==> result[k] != nil && has(s.members, result[k].ID) && s.members[result[k].ID] == result[k] && advertises(result[k], kind))
//@   ensures[C19.filter.every-capable-member] forallS("Str", id, has(s.members, id) && advertises(s.members[id], kind) ==> exists(k, 0 <= k && k < len(result) && result[k] == s.members[id]))
//@   loop 1
//@     invariant msInv(s) && fresh(members)
//@     invariant forall(k, 0 <= k && k < len(members) ==> members[k] != nil && has(s.members, members[k].ID) && s.members[members[k].ID] == members[k] && advertises(members[k], kind))
//@     invariant forallS("Str", id, visited1[id] && has(s.members, id) && advertises(s.members[id], kind) ==> 0 <= pos[id] && pos[id] < len(members) && members[pos[id]] == s.members[id])
//@     modifies elements(members)

// activate: nothing happens for an id the cluster already knows, when no
// member advertises the kind, or when the select function declines; otherwise
// exactly one activation request for exactly (kind, id) goes to the selected
// member (handled locally when that member is this node), and the resulting
// PID is announced to the cluster and returned.
//@ func (a *Agent).activate(kind, config)
//@   props C19
//@   requires agentInv(a) && a.localKinds != nil && a.cluster.engine != nil
//@   modifies heap except private, mapof(a.cluster.engine.Registry.lookup), log, loglen, startPerm
//@   ghost at call Result#1: assume[C19.reply-is-not-a-typed-nil] !(istype(result0, *ActivationResponse) && result0.(*ActivationResponse) == nil)
//@   ghost at return#1: assert[C19.activate.known-id-returns-nil-and-does-nothing] old(has(a.activated, kind + "/" + config.id)) && result == nil && loglen == entry(loglen)
//@   ghost at return#2: assert[C19.activate.no-capable-member-returns-nil-and-does-nothing] result == nil && loglen == entry(loglen) && forallS("Str", id, has(a.members.members, id) ==> !advertises(a.members.members[id], kind))
//@   ghost at return#3: assert[C19.activate.select-declined-returns-nil-and-does-nothing] result == nil && loglen == entry(loglen)
//@   ghost at call handleActivationRequest#1 before: assert[C19.activate.local-request-for-kind-and-id] arg0 == a && memberPID.Host == a.cluster.engine.address && arg1 != nil && arg1.Kind == kind && arg1.ID == config.id && loglen == entry(loglen)
//@   ghost at call Request#1 before: assert[C19.activate.remote-request-to-the-selected-members-agent] arg0 == a.cluster.engine && memberPID.Host != a.cluster.engine.address && arg1.Address == memberPID.Host && arg1.ID == "cluster/" + memberPID.ID &&
//@        istype(arg2, *ActivationRequest) && arg2.(*ActivationRequest).Kind == kind && arg2.(*ActivationRequest).ID == config.id && loglen == entry(loglen)
//@   ghost at call bcast#1 before: assert[C19.activate.announces-the-new-pid] arg0 == a && istype(arg1, *Activation) && arg1.(*Activation) != nil && arg1.(*Activation).PID == activationResp.PID && !old(has(a.activated, kind + "/" + config.id))
//@   ghost at return#4: assert[C19.activate.returns-the-activated-pid] result == activationResp.PID
//@   ghost at entry: announced = false
//@   ghost at call bcast#1: announced = true
//@   ghost at return#4: assert[C19.activate.success-is-announced] announced

//@ func (a *Agent).handleGetActive(c, msg)
//@   props C19
//@   requires agentInv(a) && c != nil && engInv(c.engine)
//@   modifies log, loglen
//@   ghost at entry: answered = 0
//@   ghost at call Respond: answered = answered + 1
//@   ghost at return: assert[C19.getactive.answered-exactly-once] (len(msg.id) > 0) != (len(msg.kind) > 0) ==> answered == 1
//@   ghost at call Respond#1 before: assert[C19.getactive.by-id] arg0 == c && len(msg.id) > 0 && arg1 == any(ite(has(a.activated, msg.id), a.activated[msg.id], nilof("*actor.PID")))
//@   loop 1
//@     invariant fresh(pids) && agentInv(a) && c != nil && engInv(c.engine)
//@     modifies elements(pids)
