//go:build verif

// Contracts for package cluster, checked by /verif/hv (comment-only file;
// compiled only with the build tag "verif", contains no code).

package cluster

// Representation invariant of a MemberSet: every entry is a non-nil member
// stored under its own ID.
//@ pred msInv(s) := s != nil && s.members != nil && forallS("Str", id, has(s.members, id) ==> s.members[id] != nil && s.members[id].ID == id)

//@ func (*MemberSet).GetByHost(host)
//@   props C20
//@   requires msInv(s)
//@   modifies
//@   ensures[C20.getbyhost.member] result != nil ==> has(s.members, result.ID) && s.members[result.ID] == result && result.Host == host
//@   ensures[C20.getbyhost.none] result == nil ==> forallS("Str", id, has(s.members, id) ==> s.members[id].Host != host)
//@   loop 1
//@     invariant msInv(s)
//@     invariant theMember != nil ==> has(s.members, theMember.ID) && s.members[theMember.ID] == theMember && theMember.Host == host
//@     invariant theMember == nil ==> forallS("Str", id, has(s.members, id) && visited1[id] ==> s.members[id].Host != host)

//@ func (*MemberSet).Contains(member)
//@   props C20
//@   requires s != nil
//@   requires[C20.contains.nonnil] member != nil
//@   modifies
//@   ensures[C20.contains.def] result == has(s.members, member.ID)

//@ func (*MemberSet).Remove(member)
//@   props C20
//@   requires s != nil
//@   requires[C20.remove.nonnil] member != nil
//@   modifies mapof(s.members)
//@   ensures[C20.remove.only] forallS("Str", id, has(s.members, id) == (old(has(s.members, id)) && id != member.ID))
//@   ensures[C20.remove.kept] forallS("Str", id, has(s.members, id) ==> s.members[id] == old(s.members[id]))

//@ func (*MemberSet).Add(member)
//@   props C20
//@   requires s != nil && s.members != nil
//@   requires[C20.add.nonnil] member != nil
//@   modifies mapof(s.members)
//@   ensures[C20.add.only] forallS("Str", id, has(s.members, id) == (old(has(s.members, id)) || id == member.ID))
//@   ensures[C20.add.value] s.members[member.ID] == member
//@   ensures[C20.add.kept] forallS("Str", id, id != member.ID ==> s.members[id] == old(s.members[id]))

// Telling the agent: builds a fresh slice of the members and sends it; trusted
// not to change the member set (Engine.Send is the boundary to package actor).
//@ func (*SelfManaged).sendMembersToAgent()
//@   trusted
//@   modifies

//@ func (*SelfManaged).removeMember(member)
//@   props C20
//@   requires s != nil && msInv(s.members)
//@   nopanic[C20.leave.nopanic]
//@   ensures[C20.leave.non-member] (member == nil || !old(has(s.members.members, member.ID))) ==> forallS("Str", id, has(s.members.members, id) == old(has(s.members.members, id)))
//@   ensures[C20.leave.member] member != nil ==> forallS("Str", id, has(s.members.members, id) == (old(has(s.members.members, id)) && id != member.ID))
//@   ensures[C20.leave.kept] forallS("Str", id, has(s.members.members, id) ==> s.members.members[id] == old(s.members.members[id]))
//@   ensures[C20.leave.inv] msInv(s.members)

//@ func (*SelfManaged).addMembers(members)
//@   props C20
//@   requires s != nil && msInv(s.members)
//@   requires forall(k, 0 <= k && k < len(members) ==> members[k] != nil)
//@   nopanic[C20.add-all.nopanic]
//@   ensures[C20.add-all.present] forall(k, 0 <= k && k < len(members) ==> has(s.members.members, members[k].ID))
//@   ensures[C20.add-all.superset] forallS("Str", id, old(has(s.members.members, id)) ==> has(s.members.members, id) && s.members.members[id] == old(s.members.members[id]))
//@   ensures[C20.add-all.inv] msInv(s.members)
//@   loop 1
//@     invariant rangeindex >= -1 && s.members == old(s.members)
//@     invariant msInv(s.members)
//@     invariant forall(k, 0 <= k && k <= rangeindex && k < len(members) ==> has(s.members.members, members[k].ID))
//@     invariant forallS("Str", id, old(has(s.members.members, id)) ==> has(s.members.members, id) && s.members.members[id] == old(s.members.members[id]))
