//go:build verif

// Contracts for package cluster, checked by /verif/hv (comment-only file;
// compiled only with the build tag "verif", contains no code).

package cluster

// Representation invariant of a MemberSet: every entry is a non-nil member
// stored under its own ID.
//@ pred msInv(s) := s != nil && s.members != nil && forallS("Str", id, has(s.members, id) ==> s.members[id] != nil && s.members[id].ID == id)

//@ func (*MemberSet).GetByHost(host)
//@   props C20
//@   requires msInv(s)
//@   modifies
//@   ensures[C20.getbyhost.member] result != nil ==> has(s.members, result.ID) && s.members[result.ID] == result && result.Host == host
//@   ensures[C20.getbyhost.none] result == nil ==> forallS("Str", id, has(s.members, id) ==> s.members[id].Host != host)
//@   loop 1
//@     invariant msInv(s)
//@     invariant theMember != nil ==> has(s.members, theMember.ID) && s.members[theMember.ID] == theMember && theMember.Host == host
//@     invariant theMember == nil ==> forallS("Str", id, has(s.members, id) && visited1[id] ==> s.members[id].Host != host)

//@ func (*MemberSet).Contains(member)
//@   props C20
//@   requires s != nil
//@   requires[C20.contains.nonnil] member != nil
//@   modifies
//@   ensures[C20.contains.def] result == has(s.members, member.ID)

//@ func (*MemberSet).Remove(member)
//@   props C20
//@   requires s != nil
//@   requires[C20.remove.nonnil] member != nil
//@   modifies mapof(s.members)
//@   ensures[C20.remove.only] forallS("Str", id, has(s.members, id) == (old(has(s.members, id)) && id != member.ID))
//@   ensures[C20.remove.kept] forallS("Str", id, has(s.members, id) ==> s.members[id] == old(s.members[id]))

//@ func (*MemberSet).Add(member)
//@   props C20
//@   requires s != nil && s.members != nil
//@   requires[C20.add.nonnil] member != nil
//@   modifies mapof(s.members)
//@   ensures[C20.add.only] forallS("Str", id, has(s.members, id) == (old(has(s.members, id)) || id == member.ID))
//@   ensures[C20.add.value] s.members[member.ID] == member
//@   ensures[C20.add.kept] forallS("Str", id, id != member.ID ==> s.members[id] == old(s.members[id]))

// complete(sl, set): every member of the set occurs in the slice.
//@ pred complete(sl, set) := forallS("Str", id, has(set.members, id) ==> exists(k, 0 <= k && k < len(sl) && sl[k] == set.members[id]))
//@ pred provInv(s) := s != nil && msInv(s.members) && s.cluster != nil && engInv(s.cluster.engine)

//@ func (*Cluster).PID()
//@   props C20
//@   requires c != nil
//@   pure
//@   ensures result == c.agentPID

// Telling the agent: one send of a *Members message listing every current
// member to the agent's PID (nothing when the agent PID is not set yet).
//@ func (*SelfManaged).sendMembersToAgent()
//@   props C20
//@   requires provInv(s)
//@   nopanic[C20.agent.nopanic]
//@   modifies log, loglen
//@   ghost at call Send#1 before: assert[C20.agent.told-complete-list] arg0 == s.cluster.engine && arg1 == s.cluster.agentPID && istype(arg2, *Members) && arg2.(*Members) != nil && complete(arg2.(*Members).Members, s.members)
//@   ensures[C20.agent.told-once] (s.cluster.agentPID == nil ==> loglen == entry(loglen)) && (s.cluster.agentPID != nil ==> loglen == entry(loglen) + 1 && addressedTo(log[entry(loglen)], s.cluster.agentPID)) && logPrefix(entry(loglen))

//@ func (*SelfManaged).removeMember(member)
//@   props C20
//@   requires provInv(s)
//@   nopanic[C20.leave.nopanic]
//@   modifies mapof(s.members.members), log, loglen
//@   ensures[C20.leave.agent-told] (member != nil && s.cluster.agentPID != nil ==> loglen == entry(loglen) + 1 && addressedTo(log[entry(loglen)], s.cluster.agentPID)) && (member == nil || s.cluster.agentPID == nil ==> loglen == entry(loglen)) && logPrefix(entry(loglen))
//@   ensures[C20.leave.non-member] (member == nil || !old(has(s.members.members, member.ID))) ==> forallS("Str", id, has(s.members.members, id) == old(has(s.members.members, id)))
//@   ensures[C20.leave.member] member != nil ==> forallS("Str", id, has(s.members.members, id) == (old(has(s.members.members, id)) && id != member.ID))
//@   ensures[C20.leave.kept] forallS("Str", id, has(s.members.members, id) ==> s.members.members[id] == old(s.members.members[id]))
//@   ensures[C20.leave.inv] msInv(s.members)

//@ func (*SelfManaged).addMembers(members)
//@   props C20
//@   requires provInv(s)
//@   modifies mapof(s.members.members), log, loglen
//@   ensures[C20.add-all.agent-told] (s.cluster.agentPID != nil ==> loglen == entry(loglen) + 1 && addressedTo(log[entry(loglen)], s.cluster.agentPID)) && (s.cluster.agentPID == nil ==> loglen == entry(loglen)) && logPrefix(entry(loglen))
//@   requires forall(k, 0 <= k && k < len(members) ==> members[k] != nil)
//@   nopanic[C20.add-all.nopanic]
//@   ensures[C20.add-all.present] forall(k, 0 <= k && k < len(members) ==> has(s.members.members, members[k].ID))
//@   ensures[C20.add-all.superset] forallS("Str", id, old(has(s.members.members, id)) ==> has(s.members.members, id) && s.members.members[id] == old(s.members.members[id]))
//@   ensures[C20.add-all.inv] msInv(s.members)
//@   loop 1
//@     invariant rangeindex >= -1 && s.members == old(s.members)
//@     invariant msInv(s.members) && provInv(s)
//@     invariant forall(k, 0 <= k && k <= rangeindex && k < len(members) ==> has(s.members.members, members[k].ID))
//@     invariant forallS("Str", id, old(has(s.members.members, id)) ==> has(s.members.members, id) && s.members.members[id] == old(s.members.members[id]))
//@     modifies mapof(s.members.members)

// Slice: every member of the set, each exactly at one position. card/visited
// count of the map iteration bound the index; pos is a ghost witness
// (member ID -> position) for "every member occurs in the result".
//@ func (*MemberSet).Slice()
//@   props C20 C18
//@   requires msInv(s)
//@   modifies
//@   ghost at entry: pos = arbitrary("(Array Str Int)")
//@   ghost at storeelem#1: pos = store(pos, member.ID, i)
//@   ensures[C20.slice.len] len(result) == len(s.members)
//@   ensures[C20.slice.sound] forall(k, 0 <= k && k < len(result) ==> result[k] != nil && has(s.members, result[k].ID) && s.members[result[k].ID] == result[k])
//@   ensures[C20.slice.complete] forallS("Str", id, has(s.members, id) ==> exists(k, 0 <= k && k < len(result) && result[k] == s.members[id]))
//@   ensures fresh(result)
//@   loop 1
//@     invariant msInv(s) && i == count1 && 0 <= i && i <= len(members) && len(members) == len(s.members) && members.off == 0 && fresh(members)
//@     invariant forall(k, 0 <= k && k < i ==> members[k] != nil && has(s.members, members[k].ID) && s.members[members[k].ID] == members[k])
//@     invariant forallS("Str", id, has(s.members, id) && visited1[id] ==> 0 <= pos[id] && pos[id] < i && members[pos[id]] == s.members[id])
//@     modifies elements(members)


//@ func (*Cluster).Member()
//@   trusted
//@   modifies
//@   ensures result != nil && fresh(result)

//@ func (*SelfManaged).start(c)
//@   trusted
//@   modifies heap

//@ func (*SelfManaged).handleMemberPing(c)
//@   trusted
//@   modifies heap

//@ func (*Context).SendRepeat(pid, msg, interval)
//@   trusted
//@   modifies

// The provider actor. Only the three membership cases are verified (the
// precondition restricts the message to them); nothing is claimed about the
// other cases (Started/Stopped/ping: discovery, pinger, shutdown).
//@ func (*SelfManaged).Receive(c)
//@   props C20
//@   requires provInv(s) && c != nil
//@   requires istype(c.message, *Handshake) || istype(c.message, *Members) || istype(c.message, memberLeave)
//@   requires istype(c.message, *Handshake) ==> c.message.(*Handshake) != nil && c.message.(*Handshake).Member != nil
//@   requires istype(c.message, *Members) ==> c.message.(*Members) != nil && forall(k, 0 <= k && k < len(c.message.(*Members).Members) ==> c.message.(*Members).Members[k] != nil)
//@   modifies mapof(s.members.members), log, loglen
//@   ghost at entry: gone = nilof("*Member")
//@   ghost at call GetByHost#1 before: assert[C20.leave.looks-up-reported-address] arg0 == s.members && arg1 == c.message.(memberLeave).ListenAddr
//@   ghost at call GetByHost#1: gone = result
//@   ghost at call removeMember#1 before: assert[C20.leave.removes-the-member-found] arg0 == s && arg1 == gone
//@   ghost at call Send#1 before: assert[C20.handshake.reply-to-sender-with-complete-list] arg0 == s.cluster.engine && arg1 == c.sender && istype(arg2, *Members) && arg2.(*Members) != nil &&
//@        complete(arg2.(*Members).Members, s.members) && has(s.members.members, c.message.(*Handshake).Member.ID)
//@   ensures[C20.handshake.adds-peer-keeps-others] istype(old(c.message), *Handshake) ==> has(s.members.members, old(c.message).(*Handshake).Member.ID) &&
//@        forallS("Str", id, old(has(s.members.members, id)) ==> has(s.members.members, id) && s.members.members[id] == old(s.members.members[id]))
//@   ensures[C20.handshake.agent-told-then-replied] istype(old(c.message), *Handshake) && c.sender != nil && s.cluster.agentPID != nil ==> loglen == entry(loglen) + 2 && addressedTo(log[entry(loglen)], s.cluster.agentPID) && addressedTo(log[entry(loglen) + 1], c.sender)
//@   ensures[C20.handshake.replied] istype(old(c.message), *Handshake) && c.sender != nil ==> loglen >= entry(loglen) + 1 && addressedTo(log[loglen - 1], c.sender)
//@   ensures[C20.members.adds-all-keeps-others] istype(old(c.message), *Members) ==> forall(k, 0 <= k && k < len(old(c.message).(*Members).Members) ==> has(s.members.members, old(c.message).(*Members).Members[k].ID)) &&
//@        forallS("Str", id, old(has(s.members.members, id)) ==> has(s.members.members, id) && s.members.members[id] == old(s.members.members[id]))
//@   ensures[C20.members.agent-told] istype(old(c.message), *Members) && s.cluster.agentPID != nil ==> loglen == entry(loglen) + 1 && addressedTo(log[entry(loglen)], s.cluster.agentPID)
//@   ensures[C20.leave.unknown-address-changes-nothing] istype(old(c.message), memberLeave) && forallS("Str", id, old(has(s.members.members, id)) ==> old(s.members.members[id].Host) != old(c.message).(memberLeave).ListenAddr) ==>
//@        loglen == entry(loglen) && forallS("Str", id, has(s.members.members, id) == old(has(s.members.members, id)) && (has(s.members.members, id) ==> s.members.members[id] == old(s.members.members[id])))
//@   ensures[C20.leave.member-with-that-address-removed] istype(old(c.message), memberLeave) && existsS("Str", id, old(has(s.members.members, id)) && old(s.members.members[id].Host) == old(c.message).(memberLeave).ListenAddr) ==>
//@        gone != nil && old(has(s.members.members, gone.ID)) && gone.Host == old(c.message).(memberLeave).ListenAddr && forallS("Str", id, has(s.members.members, id) == (old(has(s.members.members, id)) && id != gone.ID)) &&
//@        (s.cluster.agentPID != nil ==> loglen == entry(loglen) + 1 && addressedTo(log[entry(loglen)], s.cluster.agentPID))
//@   ensures[C20.leave.others-untouched] istype(old(c.message), memberLeave) ==> forallS("Str", id, has(s.members.members, id) ==> s.members.members[id] == old(s.members.members[id])) && msInv(s.members)
