//go:build verif

// Contracts for package safemap, checked by /verif/hv (comment-only file;
// compiled only with the build tag "verif", contains no code).

package safemap

//@ func (*SafeMap).Len()
//@   trusted
//@   modifies
//@   ensures result >= 0

//@ func (*SafeMap).Delete(k)
//@   trusted
//@   modifies mapof(s.data)
