//go:build verif

// Contracts for package safemap, checked by /verif/hv (comment-only file;
// compiled only with the build tag "verif", contains no code).
// SafeMap is verified in lock-invariant mode: every access to data happens
// under mu, and every critical section is one atomic transition of the map
// (old(...) = the map when the lock was acquired).

package safemap

//@ guarded SafeMap(s) by mu footprint s.data, mapof(s.data)
//@ lockinv[C08.safemap.inv] s.data != nil

//@ func New()
//@   props C08
//@   constructs
//@   modifies
//@   ensures[C08.safemap.new] result != nil && fresh(result) && result.data != nil && len(result.data) == 0

//@ func (s *SafeMap).Set(k, v)
//@   props C08
//@   requires s != nil
//@   modifies mapof(s.data)
//@   atunlock[C08.safemap.set] has(s.data, k) && s.data[k] == v
//@   atunlock[C08.safemap.set-others-unchanged] forallS("TP$K", q, q != k ==> has(s.data, q) == old(has(s.data, q)) && s.data[q] == old(s.data[q]))

//@ func (s *SafeMap).Get(k)
//@   props C08
//@   requires s != nil
//@   modifies
//@   ensures[C08.safemap.get] result1 == old(has(s.data, k)) && (result1 ==> result0 == old(s.data[k]))

//@ func (s *SafeMap).Delete(k)
//@   props C08
//@   requires s != nil
//@   modifies mapof(s.data)
//@   atunlock[C08.safemap.delete] !has(s.data, k) && forallS("TP$K", q, q != k ==> has(s.data, q) == old(has(s.data, q)) && s.data[q] == old(s.data[q]))

//@ func (s *SafeMap).Len()
//@   props C08
//@   requires s != nil
//@   modifies
//@   ensures[C08.safemap.len] result == old(len(s.data)) && result >= 0
