//go:build verif

// Contracts for package ringbuffer, checked by /verif/hv (comment-only file;
// it is compiled only with the build tag "verif" and contains no code).
//
// The abstract queue of a ring is the sequence
//   view[k] = content.items[(content.head+1+k) % content.mod],  0 <= k < len
// written viewat(rb, k) below. old(e) in a clause of a function that takes
// rb.mu refers to the state at the moment the lock was acquired.

package ringbuffer

//@ pred ringInv(rb) := rb.content != nil && len(rb.content.items) == rb.content.mod && rb.content.mod >= 1 &&
//@      0 <= rb.content.head && rb.content.head < rb.content.mod &&
//@      0 <= rb.content.tail && rb.content.tail < rb.content.mod &&
//@      0 <= rb.len && rb.len <= rb.content.mod - 1 &&
//@      rb.content.tail == gomod(rb.content.head + rb.len, rb.content.mod)
//@ ghost func ridx(Int, Int, Int) Int
//@ axiom[ridx.def] forall(h, k, m, ridx(h, k, m) == gomod(h + 1 + k, m), ridx(h, k, m))
//@ pred viewat(rb, k) := rb.content.items[ridx(rb.content.head, k, rb.content.mod)]
//@ pred slot(c, k) := c.items[ridx(c.head, k, c.mod)]

//@ guarded RingBuffer(rb) by mu footprint rb.content, rb.len, rb.content.*, elements(rb.content.items)
//@ lockinv[C14.inv] ringInv(rb)
//@ atomicinv[C14.len.nonneg] rb.len >= 0

// One entry in the callers' effect log per element pushed (what is pushed is
// asserted at the call site; that it is pushed exactly once is this event).
//@ event RingPush(rb Ref)

//@ func New(size)
//@   props C14
//@   constructs
//@   modifies
//@   requires[C14.new.size] size >= 1
//@   ensures[C14.new.inv] ringInv(result)
//@   ensures[C14.new.empty] result.len == 0
//@   ensures[C14.new.fresh] fresh(result) && result != nil

//@ func (rb *RingBuffer).Push(item)
//@   props C14 C01 C03
//@   requires rb != nil
//@   modifies rb.content, rb.len, rb.content.*, elements(rb.content.items)
//@   ghost at call AddInt64#1: emit RingPush(rb)
//@   emits RingPush(rb)
//@   atunlock[C14.push.len] rb.len == old(rb.len) + 1
//@   ensures[C14.push.len-at-return] rb.len == old(rb.len) + 1
//@   atunlock[C14.push.last] viewat(rb, old(rb.len)) == item
//@   atunlock[C14.push.prefix] forall(k, 0 <= k && k < old(rb.len) ==> viewat(rb, k) == old(viewat(rb, k)))
//@   loop 1
//@     invariant[C14.push.copy.range] 0 <= idx && idx <= rb.content.mod
//@     invariant[C14.push.copy.len] len(newBuff) == 2 * rb.content.mod && fresh(newBuff) && newBuff.off == 0
//@     invariant[C14.push.copy.elems] forall(j, 0 <= j && j < idx ==> newBuff[j] == rb.content.items[gomod(rb.content.tail + j, rb.content.mod)])
//@     modifies elements(newBuff)
//@     decreases rb.content.mod - idx

//@ func (rb *RingBuffer).Len()
//@   props C14 C03
//@   requires rb != nil
//@   modifies
//@   ensures[C14.len.nonneg] result >= 0
//@   ensures[C14.len.value] result == rb.len

//@ func (rb *RingBuffer).Pop() (item, ok)
//@   props C14
//@   requires rb != nil
//@   modifies rb.len, rb.content.*, elements(rb.content.items)
//@   ensures[C14.pop.empty] old(rb.len) == 0 ==> !ok && rb.len == 0
//@   ensures[C14.pop.head] old(rb.len) > 0 ==> ok && item == old(viewat(rb, 0))
//@   ensures[C14.pop.len] old(rb.len) > 0 ==> rb.len == old(rb.len) - 1
//@   ensures[C14.pop.rest] old(rb.len) > 0 ==> forall(k, 0 <= k && k < rb.len ==> viewat(rb, k) == old(viewat(rb, k + 1)))

//@ func (rb *RingBuffer).PopN(n) (items, ok)
//@   props C14 C01 C03
//@   requires rb != nil
//@   modifies rb.len, rb.content.*, elements(rb.content.items)
//@   requires[C14.popn.n] n >= 0
//@   ensures[C14.popn.empty] old(rb.len) == 0 ==> !ok && isnil(items) && rb.len == 0
//@   ensures[C14.popn.count] old(rb.len) > 0 ==> ok && len(items) == min(n, old(rb.len))
//@   ensures[C14.popn.prefix] old(rb.len) > 0 ==> forall(k, 0 <= k && k < len(items) ==> items[k] == old(viewat(rb, k)))
//@   ensures[C14.popn.len] old(rb.len) > 0 ==> rb.len == old(rb.len) - len(items)
//@   ensures[C14.popn.rest] old(rb.len) > 0 ==> forall(k, 0 <= k && k < rb.len ==> viewat(rb, k) == old(viewat(rb, k + len(items))))
//@   ensures[C14.popn.fresh] old(rb.len) > 0 ==> fresh(items)
//@   loop 1
//@     invariant[C14.popn.loop.range] 0 <= idx && idx <= n && n <= old(rb.len) && len(items) == n && items.off == 0 && fresh(items)
//@     invariant[C14.popn.loop.frame] content == old(rb.content) && rb.content == content && content.head == old(rb.content.head) &&
//@        content.mod == old(rb.content.mod) && content.tail == old(rb.content.tail) && content.items == old(rb.content.items) &&
//@        rb.len == old(rb.len) - n
//@     invariant[C14.popn.loop.taken] forall(k, 0 <= k && k < idx ==> items[k] == old(viewat(rb, k)))
//@     invariant[C14.popn.loop.kept] forall(k, idx <= k && k < old(rb.len) ==> slot(content, k) == old(viewat(rb, k)), ridx(content.head, k, content.mod))
//@     modifies elements(items), elements(content.items)
//@     decreases n - idx
