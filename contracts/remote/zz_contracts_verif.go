//go:build verif

// Contracts for package remote, checked by /verif/hv (comment-only file;
// compiled only with the build tag "verif", contains no code).

package remote

// What the generated decoder guarantees about an envelope it hands out
// (Envelope.UnmarshalVT appends &Message{} / &actor.PID{} for every element):
// the element pointers are non-nil. Nothing is assumed about the indices.
//@ pred decoded(env) := env != nil && forall(k, 0 <= k && k < len(env.Messages) ==> env.Messages[k] != nil)

//@ func (DRPCRemote_ReceiveStream).Recv() (env, err)
//@   abstract
//@   modifies
//@   ensures isnil(err) ==> decoded(env)

// deser names the value a deserializer produces for (bytes, type name); it is
// only used to say *which* decoded value is handed to the engine.
//@ ghost func deser(Slice, Str) Iface

//@ func (Deserializer).Deserialize(data, tname) (payload, err)
//@   abstract
//@   modifies
//@   ensures payload == deser(data, tname)

//@ func (*streamReader).Receive(stream)
//@   props C16
//@   requires r != nil && r.remote != nil && engInv(r.remote.engine) && !isnil(r.deserializer) && !isnil(stream)
//@   nopanic[C16.receive.nopanic]
//@   modifies log, loglen
//@   ghost at call SendLocal#1 before: assert[C16.receive.type-index-valid] 0 <= msg.TypeNameIndex && msg.TypeNameIndex < len(envelope.TypeNames)
//@   ghost at call SendLocal#1 before: assert[C16.receive.target-index-valid] 0 <= msg.TargetIndex && msg.TargetIndex < len(envelope.Targets)
//@   ghost at call SendLocal#1 before: assert[C16.receive.sender-index-valid] len(envelope.Senders) > 0 ==> 0 <= msg.SenderIndex && msg.SenderIndex < len(envelope.Senders)
//@   ghost at call SendLocal#1 before: assert[C16.receive.addressed-target] target == envelope.Targets[msg.TargetIndex]
//@   ghost at call SendLocal#1 before: assert[C16.receive.named-type] payload == deser(msg.Data, envelope.TypeNames[msg.TypeNameIndex])
//@   ghost at call SendLocal#1 before: assert[C16.receive.sender] (len(envelope.Senders) > 0 ==> sender == envelope.Senders[msg.SenderIndex]) && (len(envelope.Senders) == 0 ==> sender == nil)
//@   loop 1
//@     invariant true
//@   loop 2
//@     invariant rangeindex >= -1
//@     invariant decoded(envelope)
