//go:build verif

// Contracts for package remote, checked by /verif/hv (comment-only file;
// compiled only with the build tag "verif", contains no code).

package remote

// What the generated decoder guarantees about an envelope it hands out
// (Envelope.UnmarshalVT appends &Message{} / &actor.PID{} for every element):
// the element pointers are non-nil. Nothing is assumed about the indices.
//@ pred decoded(env) := env != nil && forall(k, 0 <= k && k < len(env.Messages) ==> env.Messages[k] != nil)

//@ func (DRPCRemote_ReceiveStream).Recv() (env, err)
//@   abstract
//@   modifies
//@   ensures isnil(err) ==> decoded(env)

// deser names the value a deserializer produces for (bytes, type name); it is
// only used to say *which* decoded value is handed to the engine.
//@ ghost func deser(Slice, Str) Iface

//@ func (Deserializer).Deserialize(data, tname) (payload, err)
//@   abstract
//@   modifies
//@   ensures payload == deser(data, tname)

//@ func (r *streamReader).Receive(stream)
//@   props C16 C17
//@   requires r != nil && r.remote != nil && engInv(r.remote.engine) && !isnil(r.deserializer) && !isnil(stream)
//@   nopanic[C16.receive.nopanic]
//@   modifies log, loglen
//@   ghost at entry: lenv = loglen; nprev = 0
//@   ghost at call Recv#1 before: assert[C17.reader.envelope-delivered-before-next-read] loglen == lenv + nprev
//@   ghost at call Recv#1: lenv = loglen; nprev = len(result0.Messages)
//@   ghost at call SendLocal#1 before: assert[C17.reader.in-envelope-order] loglen == lenv + rangeindex && msg == envelope.Messages[rangeindex]
//@   ghost at call SendLocal#1 before: assert[C16.receive.type-index-valid] 0 <= msg.TypeNameIndex && msg.TypeNameIndex < len(envelope.TypeNames)
//@   ghost at call SendLocal#1 before: assert[C16.receive.target-index-valid] 0 <= msg.TargetIndex && msg.TargetIndex < len(envelope.Targets)
//@   ghost at call SendLocal#1 before: assert[C16.receive.sender-index-valid] len(envelope.Senders) > 0 ==> 0 <= msg.SenderIndex && msg.SenderIndex < len(envelope.Senders)
//@   ghost at call SendLocal#1 before: assert[C16.receive.addressed-target] target == envelope.Targets[msg.TargetIndex]
//@   ghost at call SendLocal#1 before: assert[C16.receive.named-type] payload == deser(msg.Data, envelope.TypeNames[msg.TypeNameIndex])
//@   ghost at call SendLocal#1 before: assert[C16.receive.sender] (len(envelope.Senders) > 0 ==> sender == envelope.Senders[msg.SenderIndex]) && (len(envelope.Senders) == 0 ==> sender == nil)
//@   loop 1
//@     invariant[C17.reader.inv.between-envelopes] loglen == lenv + nprev
//@   loop 2
//@     invariant rangeindex >= -1
//@     invariant decoded(envelope)
//@     invariant[C17.reader.inv.one-delivery-per-message] loglen == lenv + rangeindex + 1 && rangeindex < len(envelope.Messages) && nprev == len(envelope.Messages)

// ---------------------------------------------------------------------------
// Outbound encoding (C15): streamWriter.Invoke builds three lookup tables
// (type names, senders, targets) and one Message per envelope of the batch.
// tblS / tblP: the map is exactly the inverse of the slice (index of every
// entry, every key is some entry's key).

//@ pred pidkey(p) := hk(p.Address + p.ID)
//@ pred tblS(m, sl) := m != nil && len(m) == len(sl) && forall(i, 0 <= i && i < len(sl) ==> has(m, sl[i]) && m[sl[i]] == i) &&
//@      forallS("Str", k, has(m, k) ==> 0 <= m[k] && m[k] < len(sl) && sl[m[k]] == k)
//@ pred tblP(m, sl) := m != nil && len(m) == len(sl) && forall(i, 0 <= i && i < len(sl) ==> sl[i] != nil && has(m, pidkey(sl[i])) && m[pidkey(sl[i])] == i) &&
//@      forallS("Int", k, has(m, k) ==> 0 <= m[k] && m[k] < len(sl) && pidkey(sl[m[k]]) == k)

//@ func lookupTypeName(m, name, types)
//@   props C15
//@   requires tblS(m, types)
//@   modifies mapof(m), elements(types)
//@   ensures[C15.lookup.type.index] 0 <= result0 && result0 < len(result1) && result1[result0] == name
//@   ensures[C15.lookup.type.table] tblS(m, result1) && (result1.arr == types.arr || fresh(result1))
//@   ensures[C15.lookup.type.earlier-entries-kept] len(result1) >= len(types) && len(result1) <= len(types) + 1 && forall(i, 0 <= i && i < len(types) ==> result1[i] == old(types[i]))

//@ func lookupPIDs(m, pid, pids)
//@   props C15
//@   requires tblP(m, pids)
//@   modifies mapof(m), elements(pids)
//@   ensures[C15.lookup.pid.index] pid != nil ==> 0 <= result0 && result0 < len(result1) && pidkey(result1[result0]) == pidkey(pid)
//@   ensures[C15.lookup.pid.by-value@address-and-id-split-differently] pid != nil ==> result1[result0].Address == pid.Address && result1[result0].ID == pid.ID
//@   ensures[C15.lookup.pid.nil-is-index-zero-without-entry] pid == nil ==> result0 == 0 && result1 == pids
//@   ensures[C15.lookup.pid.table] tblP(m, result1) && (result1.arr == pids.arr || fresh(result1))
//@   ensures[C15.lookup.pid.earlier-entries-kept] len(result1) >= len(pids) && len(result1) <= len(pids) + 1 && forall(i, 0 <= i && i < len(pids) ==> result1[i] == old(pids[i]))

// tnameof / ser name what a serializer produces for a payload; deser (above)
// and the protobuf library are assumed inverse on serialisable payloads.
//@ ghost func tnameof(Iface) Str
//@ ghost func ser(Iface) Slice
//@ event StreamSend(stream Iface, env Ref as *Envelope)

//@ func (Serializer).TypeName(msg)
//@   abstract
//@   pure
//@   ensures result == tnameof(msg)

//@ func (Serializer).Serialize(msg) (data, err)
//@   abstract
//@   modifies
//@   ensures isnil(err) ==> data == ser(msg)

//@ func (DRPCRemote_ReceiveStream).Send(env)
//@   abstract
//@   modifies
//@   emits StreamSend(self, env)

// The protobuf serializer: for EVERY payload (also one that is not a protobuf
// message) TypeName and Serialize return normally.
//@ func (ProtoSerializer).TypeName(msg)
//@   props C15
//@   nopanic[C15.serializer.typename-never-panics]
//@   modifies

//@ func (ProtoSerializer).Serialize(msg)
//@   props C15
//@   nopanic[C15.serializer.serialize-never-panics]
//@   modifies

//@ pred sdOf(e) := e.Msg.(*streamDeliver)
//@ pred encodes(mg, sd, typeNames, senders, targets) := mg != nil && 0 <= mg.TypeNameIndex && mg.TypeNameIndex < len(typeNames) && typeNames[mg.TypeNameIndex] == tnameof(sd.msg) &&
//@      0 <= mg.TargetIndex && mg.TargetIndex < len(targets) && pidkey(targets[mg.TargetIndex]) == pidkey(sd.target) &&
//@      (sd.sender != nil ==> 0 <= mg.SenderIndex && mg.SenderIndex < len(senders) && pidkey(senders[mg.SenderIndex]) == pidkey(sd.sender)) &&
//@      (sd.sender == nil ==> mg.SenderIndex == 0) && mg.Data == ser(sd.msg)

//@ func (s *streamWriter).Invoke(msgs)
//@   props C15
//@   requires s != nil && !isnil(s.serializer) && !isnil(s.stream) && !isnil(s.rawconn) && s.conn != nil
//@   requires forall(k, 0 <= k && k < len(msgs) ==> istype(msgs[k].Msg, *streamDeliver) && sdOf(msgs[k]) != nil && sdOf(msgs[k]).target != nil)
//@   nopanic[C15.writer.nopanic]
//@   modifies log, loglen
//@   ghost at entry: mp = arbitrary("(Array Int Int)"); nerr = 0
//@   ghost at call Error#1: nerr = nerr + 1
//@   ghost at call append#1 before: mp = store(mp, len(messages), idx)
//@   ghost at call Send#1 before: assert[C15.writer.envelope-carries-the-tables] arg0 != nil && arg0.Senders == senders && arg0.Targets == targets && arg0.TypeNames == typeNames && arg0.Messages == messages
//@   ghost at call Send#1 before: assert[C15.writer.every-message-encoded-in-batch-order] forall(q, 0 <= q && q < len(messages) ==> 0 <= mp[q] && mp[q] < len(msgs) && encodes(messages[q], sdOf(msgs[mp[q]]), typeNames, senders, targets)) &&
//@        forall(q1, q2, 0 <= q1 && q1 < q2 && q2 < len(messages) ==> mp[q1] < mp[q2])
//@   ghost at call Send#1 before: assert[C15.writer.dropped-only-on-serialize-error-and-without-placeholder] len(messages) + nerr == len(msgs) && forall(q, 0 <= q && q < len(messages) ==> messages[q] != nil)
//@   ghost at call Send#1 before: assert[C15.writer.senderless-message-arrives-without-sender@nil-sender-in-a-batch-with-senders] forall(q, 0 <= q && q < len(messages) ==> sdOf(msgs[mp[q]]).sender != nil || len(senders) == 0)
//@   ensures[C15.writer.one-envelope-per-batch] loglen == entry(loglen) + 1 && logPrefix(entry(loglen))
//@   loop 1
//@     invariant 0 <= idx && idx <= len(msgs) && len(messages) + nerr == idx && nerr >= 0 && fresh(messages) && loglen == entry(loglen)
//@     invariant s != nil && !isnil(s.serializer) && !isnil(s.stream) && !isnil(s.rawconn) && s.conn != nil
//@     invariant tblS(typeLookup, typeNames) && tblP(senderLookup, senders) && tblP(targetLookup, targets) && fresh(typeLookup) && fresh(senderLookup) && fresh(targetLookup)
//@     invariant fresh(typeNames) && fresh(senders) && fresh(targets) && typeNames.arr != messages.arr && senders.arr != targets.arr && senders.arr != messages.arr && targets.arr != messages.arr
//@     invariant forall(k, 0 <= k && k < len(msgs) ==> msgs[k] == old(msgs[k]) && istype(msgs[k].Msg, *streamDeliver) && sdOf(msgs[k]) != nil && sdOf(msgs[k]).target != nil)
//@     invariant[C15.writer.loop.positions] forall(q, 0 <= q && q < len(messages) ==> messages[q] != nil && fresh(messages[q]) && 0 <= mp[q] && mp[q] < idx) && forall(q1, q2, 0 <= q1 && q1 < q2 && q2 < len(messages) ==> mp[q1] < mp[q2])
//@     invariant[C15.writer.loop.type] forall(q, 0 <= q && q < len(messages) ==> 0 <= messages[q].TypeNameIndex && messages[q].TypeNameIndex < len(typeNames) && typeNames[messages[q].TypeNameIndex] == tnameof(sdOf(msgs[mp[q]]).msg) && messages[q].Data == ser(sdOf(msgs[mp[q]]).msg))
//@     invariant[C15.writer.loop.target] forall(q, 0 <= q && q < len(messages) ==> 0 <= messages[q].TargetIndex && messages[q].TargetIndex < len(targets) && pidkey(targets[messages[q].TargetIndex]) == pidkey(sdOf(msgs[mp[q]]).target))
//@     invariant[C15.writer.loop.sender] forall(q, 0 <= q && q < len(messages) ==> (sdOf(msgs[mp[q]]).sender != nil ==> 0 <= messages[q].SenderIndex && messages[q].SenderIndex < len(senders) && pidkey(senders[messages[q].SenderIndex]) == pidkey(sdOf(msgs[mp[q]]).sender)) && (sdOf(msgs[mp[q]]).sender == nil ==> messages[q].SenderIndex == 0))
//@     modifies elements(messages), mapof(typeLookup), mapof(senderLookup), mapof(targetLookup), elements(typeNames), elements(senders), elements(targets)

// ---------------------------------------------------------------------------
// Routing of remote sends (C17, partial): Remote.Send -> router actor -> one
// stream writer per address; an unreachable address is forgotten so that the
// next send makes a fresh attempt; Remote.Start/Stop state machine.

// Fields of the router, the writers and the Remote, and the router's address
// table (a map[string]*actor.PID), are not written by code reached through
// Engine.SpawnProc/Send (user code and other actors have no reference to them).
//@ private H$remote.streamRouter, H$remote.streamWriter, H$remote.streamDeliver, H$remote.Remote, MD$map<string>p.actor.PID, MV$map<string>p.actor.PID, MC$map<string>p.actor.PID

//@ func (DRPCRemote_ReceiveStream).Close()
//@   abstract
//@   modifies

//@ func newStreamWriter(e, rpid, address, tlsConfig, buffSize)
//@   trusted
//@   modifies
//@   ensures !isnil(result) && writerAddr(result) == address
//@ ghost func writerAddr(Iface) Str

//@ func (r *Remote).Send(pid, msg, sender)
//@   props C17
//@   requires r != nil && engInv(r.engine)
//@   modifies log, loglen
//@   ghost at call Send#1 before: assert[C17.remote.one-deliver-to-the-router] arg0 == r.engine && arg1 == r.streamRouterPID && istype(arg2, *streamDeliver) && arg2.(*streamDeliver) != nil &&
//@        arg2.(*streamDeliver).target == pid && arg2.(*streamDeliver).sender == sender && arg2.(*streamDeliver).msg == msg
//@   ensures[C17.remote.send-effect] (r.streamRouterPID != nil ==> loglen == entry(loglen) + 1 && addressedTo(log[entry(loglen)], r.streamRouterPID)) && (r.streamRouterPID == nil ==> loglen == entry(loglen)) && logPrefix(entry(loglen))

//@ func (s *streamRouter).handleTerminateStream(msg)
//@   props C17
//@   requires s != nil && s.streams != nil
//@   modifies mapof(s.streams)
//@   ensures[C17.router.forgets-the-unreachable-address] forallS("Str", a, has(s.streams, a) == (old(has(s.streams, a)) && a != msg.ListenAddr)) && forallS("Str", a, has(s.streams, a) ==> s.streams[a] == old(s.streams[a]))

//@ pred tableOK(s) := forallS("Str", a, has(s.streams, a) ==> s.streams[a] != nil)

//@ func (s *streamRouter).deliverStream(msg)
//@   props C17
//@   requires s != nil && s.streams != nil && engInv(s.engine) && msg != nil && msg.target != nil && tableOK(s)
//@   modifies heap except private, mapof(s.streams), log, loglen
//@   ghost at entry: spawned = false
//@   ghost at call newStreamWriter#1 before: assert[C17.router.writer-for-the-target-address] arg0 == s.engine && arg1 == s.pid && arg2 == msg.target.Address
//@   ghost at call SpawnProc#1: spawned = true
//@   ghost at call Send#1 before: assert[C17.router.forwards-the-deliver-unchanged] arg0 == s.engine && arg1 == s.streams[msg.target.Address] && arg2 == msg && has(s.streams, msg.target.Address)
//@   ghost at return#1: assert[C17.router.existing-writer-reused] old(has(s.streams, msg.target.Address)) ==> !spawned && s.streams[msg.target.Address] == old(s.streams[msg.target.Address])
//@   ghost at return#1: assert[C17.router.one-writer-per-new-address] !old(has(s.streams, msg.target.Address)) ==> spawned
//@   ensures[C17.router.table-holds-writers] tableOK(s)
//@   ensures[C17.router.deliver-forwarded-last] loglen > entry(loglen) && sendEffect(s.engine, s.streams[msg.target.Address], msg, nil, loglen - 1, loglen)
//@   ensures[C17.router.table] has(s.streams, msg.target.Address) && forallS("Str", a, a != msg.target.Address ==> has(s.streams, a) == old(has(s.streams, a)) && s.streams[a] == old(s.streams[a]))

//@ func (s *streamRouter).Receive(ctx)
//@   props C17
//@   prune
//@   requires s != nil && s.streams != nil && engInv(s.engine) && ctx != nil && tableOK(s)
//@   requires istype(ctx.message, *streamDeliver) || istype(ctx.message, actor.RemoteUnreachableEvent)
//@   requires istype(ctx.message, *streamDeliver) ==> ctx.message.(*streamDeliver) != nil && ctx.message.(*streamDeliver).target != nil
//@   modifies heap except private, mapof(s.streams), log, loglen
//@   ghost at call deliverStream#1 before: assert[C17.router.receive.deliver] arg0 == s && arg1 == ctx.message.(*streamDeliver)
//@   ghost at call handleTerminateStream#1 before: assert[C17.router.receive.unreachable] arg0 == s && arg1 == ctx.message.(actor.RemoteUnreachableEvent)
//@   ensures[C17.router.receive.deliver-forwarded] istype(old(ctx.message), *streamDeliver) ==> has(s.streams, old(ctx.message).(*streamDeliver).target.Address) && loglen > entry(loglen) &&
//@        sendEffect(s.engine, s.streams[old(ctx.message).(*streamDeliver).target.Address], old(ctx.message).(*streamDeliver), nil, loglen - 1, loglen)
//@   ensures[C17.router.receive.table-holds-writers] tableOK(s)
//@   ensures[C17.router.receive.unreachable-forgotten] istype(old(ctx.message), actor.RemoteUnreachableEvent) ==> !has(s.streams, old(ctx.message).(actor.RemoteUnreachableEvent).ListenAddr)

// Shutdown of a stream writer (dial failed or connection lost): the router is
// told first, then the event stream, then the writer stops its inbox and
// unregisters, so that a later send to its PID dead-letters (C09).
//@ func (s *streamWriter).PID()
//@   props C17
//@   requires s != nil
//@   pure
//@   ensures result == s.pid

//@ func (s *streamWriter).Shutdown()
//@   props C17
//@   requires s != nil && engInv(s.engine) && !isnil(s.inbox) && s.pid != nil && anyoneMayStop
//@   modifies mapof(s.engine.Registry.lookup), log, loglen, stoppedByMe
//@   ghost at call Send#1 before: assert[C17.writer.shutdown.tells-the-router] arg0 == s.engine && arg1 == s.routerPID && arg2 == actor.RemoteUnreachableEvent{ListenAddr: s.writeToAddr}
//@   ghost at call BroadcastEvent#1 before: assert[C17.writer.shutdown.publishes-unreachable] arg0 == s.engine && arg1 == actor.RemoteUnreachableEvent{ListenAddr: s.writeToAddr}
//@   ensures[C17.writer.shutdown.router-told-first] sendEffect(s.engine, s.routerPID, actor.RemoteUnreachableEvent{ListenAddr: s.writeToAddr}, nil, entry(loglen), loglen - 3)
//@   ensures[C17.writer.shutdown.order] log[loglen - 1] == RegRemove(s.engine.Registry, s.pid.ID) && log[loglen - 2] == InboxStop(s.inbox) &&
//@        log[loglen - 3] == Broadcast(s.engine, actor.RemoteUnreachableEvent{ListenAddr: s.writeToAddr}) && loglen >= entry(loglen) + 3 && logPrefix(entry(loglen))

// Remote.Stop: harmless when the remote is not running (nothing is signalled,
// a fresh WaitGroup is returned); otherwise exactly one stop signal.
//@ event StopSignal(ch Ref)
//@ func (r *Remote).Stop()
//@   props C17
//@   requires r != nil
//@   modifies log, loglen, r.state
//@   ghost at chansend: emit StopSignal(ch)
//@   ensures[C17.remote.stop-when-not-running-is-harmless] old(aload(r, "state")) != stateRunning ==> aload(r, "state") == old(aload(r, "state")) && loglen == entry(loglen) && fresh(result)
//@   ensures[C17.remote.stop-signals-once] old(aload(r, "state")) == stateRunning ==> aload(r, "state") == stateStopped && loglen == entry(loglen) + 1 && log[entry(loglen)] == StopSignal(r.stopCh) && result == r.stopWg

// Remote.Start: a second Start (any state but "initialized") returns an error
// and changes nothing; the first one moves the state to running before it does
// anything else. (Listening, the drpc server and the router spawn are library
// and engine calls outside this contract.)
//@ func DRPCRegisterRemote(mux, impl)
//@   trusted
//@   modifies

//@ func (r *Remote).Start(e)
//@   props C17
//@   requires r != nil && engInv(e)
//@   modifies heap except private, r.state, r.engine, r.streamRouterPID, r.stopWg, r.stopCh, log, loglen, startPerm
//@   ensures[C17.remote.start-moves-to-running] old(aload(r, "state")) == stateInitialized ==> aload(r, "state") == stateRunning
//@   ensures[C17.remote.second-start-is-an-error-without-effect] old(aload(r, "state")) != stateInitialized ==> !isnil(result) && aload(r, "state") == old(aload(r, "state")) && r.engine == old(r.engine) && r.streamRouterPID == old(r.streamRouterPID) && loglen == entry(loglen)
