#!/bin/sh
# Builds /verif/bin/hv offline from /verif/hv (golang.org/x/tools v0.29.0 from the module cache).
set -e
cd "$(dirname "$0")/hv"
export GOFLAGS=-mod=mod GOPROXY=off GOSUMDB=off GOTOOLCHAIN=local CGO_ENABLED=0
mkdir -p ../bin
go build -o ../bin/hv .
echo "built $(cd .. && pwd)/bin/hv"
