package main

// Non-control-flow SSA instructions.

import (
	"fmt"
	"go/token"
	"go/types"

	"golang.org/x/tools/go/ssa"
)

func (x *Exec) setReg(st *State, fi int, v ssa.Value, val Value) {
	st.frames[fi].regs[v] = val
}

func isStructVal(t types.Type) bool {
	_, ok := t.Underlying().(*types.Struct)
	return ok
}

func (x *Exec) step(st *State, fi int, instr ssa.Instruction, from *ssa.BasicBlock) {
	fr := st.frames[fi]
	switch in := instr.(type) {
	case *ssa.DebugRef:
	case *ssa.Alloc:
		et := in.Type().Underlying().(*types.Pointer).Elem()
		_, isArr := et.Underlying().(*types.Array)
		if in.Heap && (isStructVal(et) && !x.isOpaqueStruct(et)) {
			// heap object
			r := x.freshRef(st, in.Comment+"."+x.typeName(et))
			// zero-initialise fields
			var ls [][]int
			x.leaves(et, nil, &ls)
			for _, p := range ls {
				_, ft := x.fieldHeapName(et, p)
				x.storeFieldRaw(st, r, et, p, x.zero(ft))
			}
			x.setReg(st, fi, in, Value{T: r, Typ: in.Type()})
			if in.Comment != "" && in.Comment != "complit" {
				hl := map[string]Value{}
				for k, v := range fr.heapLocals {
					hl[k] = v
				}
				hl[in.Comment] = Value{T: r, Typ: in.Type()}
				fr.heapLocals = hl
			}
			return
		}
		if in.Heap && isStructVal(et) && x.isOpaqueStruct(et) {
			// heap object of a library struct type (sync.WaitGroup, ...): an opaque fresh reference
			r := x.freshRef(st, in.Comment+"."+x.typeName(et))
			x.setReg(st, fi, in, Value{T: r, Typ: in.Type()})
			return
		}
		if isArr {
			r := x.freshRef(st, "array")
			at := et.Underlying().(*types.Array)
			es := x.sortOf(at.Elem())
			name := x.elemHeapName(es)
			E := x.heapGet(st, name, ArraySort("Ref", ArraySort("Int", es)))
			x.heapSetRaw(st, name, Store(E, r, x.zeroArr(es, x.zero(at.Elem()))))
			x.setReg(st, fi, in, Value{T: r, Typ: in.Type()})
			return
		}
		c := x.newCell(in.Comment, et)
		fr.allocs[in] = c
		fr.order = append(fr.order, in)
		st.cells[c] = Value{T: x.zero(et), Typ: et}
		x.setReg(st, fi, in, Value{Loc: &Loc{Cell: c}, Typ: in.Type()})
	case *ssa.Store:
		addr := x.val(st, fi, in.Addr)
		v := x.val(st, fi, in.Val)
		x.doStore(st, fi, addr, v, in.Addr, in.Pos())
	case *ssa.UnOp:
		xv := x.val(st, fi, in.X)
		switch in.Op {
		case token.MUL:
			x.setReg(st, fi, in, x.doLoad(st, fi, xv, in.X, in.Type(), in.Pos()))
		case token.NOT:
			x.setReg(st, fi, in, Value{T: Not(xv.T), Typ: in.Type()})
		case token.SUB:
			x.setReg(st, fi, in, Value{T: App("-", "Int", xv.T), Typ: in.Type()})
		case token.ARROW:
			// channel receive: nondeterministic value, no heap effect (may block)
			v := x.chanRecv(st, fi, xv, in)
			x.setReg(st, fi, in, v)
		default:
			x.setReg(st, fi, in, x.freshValue(st, "unop", in.Type()))
		}
	case *ssa.BinOp:
		a, b := x.val(st, fi, in.X), x.val(st, fi, in.Y)
		x.setReg(st, fi, in, x.binop(st, in, a, b))
	case *ssa.FieldAddr:
		base := x.val(st, fi, in.X)
		pt := in.X.Type().Underlying().(*types.Pointer).Elem()
		if base.Loc != nil {
			l := *base.Loc
			l.Path = append(append([]int(nil), l.Path...), in.Field)
			x.setReg(st, fi, in, Value{Loc: &l, Typ: in.Type()})
			return
		}
		x.nilCheck(st, base.T, exprText(in.X), in.Pos())
		x.setReg(st, fi, in, Value{Loc: &Loc{Base: base.T, Root: pt, Path: []int{in.Field}}, Typ: in.Type()})
	case *ssa.Field:
		base := x.val(st, fi, in.X)
		t, ft := x.getPath(base.T, in.X.Type(), []int{in.Field})
		x.setReg(st, fi, in, Value{T: t, Typ: ft})
	case *ssa.IndexAddr:
		base := x.val(st, fi, in.X)
		idx := x.val(st, fi, in.Index)
		switch bt := in.X.Type().Underlying().(type) {
		case *types.Slice:
			x.oblige(st, "bounds", exprText(in), "", And(Le(IntLit(0), idx.T), Lt(idx.T, sLen(base.T))), in.Pos())
			x.setReg(st, fi, in, Value{Loc: &Loc{Arr: sArr(base.T), Idx: sIdx(sOff(base.T), idx.T), ElemT: bt.Elem()}, Typ: in.Type()})
		case *types.Pointer:
			at := bt.Elem().Underlying().(*types.Array)
			x.oblige(st, "bounds", exprText(in), "", And(Le(IntLit(0), idx.T), Lt(idx.T, IntLit(at.Len()))), in.Pos())
			x.setReg(st, fi, in, Value{Loc: &Loc{Arr: base.T, Idx: idx.T, ElemT: at.Elem()}, Typ: in.Type()})
		default:
			x.errorf("unsupported IndexAddr base %s", in.X.Type())
		}
	case *ssa.Index:
		base := x.val(st, fi, in.X)
		idx := x.val(st, fi, in.Index)
		switch in.X.Type().Underlying().(type) {
		case *types.Basic: // string
			x.oblige(st, "bounds", exprText(in.X)+"[...]", "", And(Le(IntLit(0), idx.T), Lt(idx.T, App("strlen", "Int", base.T))), in.Pos())
			x.setReg(st, fi, in, x.freshValue(st, "byte", in.Type()))
		default:
			x.errorf("unsupported Index on %s", in.X.Type())
			x.setReg(st, fi, in, x.freshValue(st, "index", in.Type()))
		}
	case *ssa.Slice:
		x.doSlice(st, fi, in)
	case *ssa.MakeSlice:
		ln, cp := x.val(st, fi, in.Len), x.val(st, fi, in.Cap)
		x.oblige(st, "makelen", exprText(in.Len), "", And(Le(IntLit(0), ln.T), Le(ln.T, cp.T)), in.Pos())
		et := in.Type().Underlying().(*types.Slice).Elem()
		r := x.freshRef(st, "slice")
		es := x.sortOf(et)
		name := x.elemHeapName(es)
		E := x.heapGet(st, name, ArraySort("Ref", ArraySort("Int", es)))
		x.heapSetRaw(st, name, Store(E, r, x.zeroArr(es, x.zero(et))))
		x.setReg(st, fi, in, Value{T: mkSlice(r, IntLit(0), ln.T, cp.T), Typ: in.Type()})
	case *ssa.MakeMap:
		mt := in.Type().Underlying().(*types.Map)
		r := x.freshRef(st, "map")
		dom, _, card, ks, _ := x.mapArrs(st, st.heap, st.epoch, mt)
		dn, _, cn := x.mapNames(mt)
		x.heapSetRaw(st, dn, Store(dom, r, Term{fmt.Sprintf("((as const (Array %s Bool)) false)", ks), ArraySort(ks, "Bool")}))
		x.heapSetRaw(st, cn, Store(card, r, IntLit(0)))
		x.setReg(st, fi, in, Value{T: r, Typ: in.Type()})
	case *ssa.MakeChan:
		r := x.freshRef(st, "chan")
		x.setReg(st, fi, in, Value{T: r, Typ: in.Type()})
	case *ssa.MakeInterface:
		v := x.val(st, fi, in.X)
		t := x.valueTerm(v)
		x.setReg(st, fi, in, Value{T: x.makeIface(t, in.X.Type()), Typ: in.Type()})
	case *ssa.MakeClosure:
		fn := in.Fn.(*ssa.Function)
		fv := &FnVal{Fn: fn}
		for _, b := range in.Bindings {
			fv.Bind = append(fv.Bind, x.val(st, fi, b))
		}
		val := Value{Fn: fv, Typ: in.Type()}
		// bound method closures: identity is a function of the receiver
		if fn.Synthetic != "" && len(in.Bindings) == 1 && isBoundWrapper(fn) {
			recv := fv.Bind[0]
			fv.Recv = &recv
			fv.Meth = fn.Object().(*types.Func)
			val.T = x.boundMethodTerm(recv.T, fv.Meth.Name())
		} else {
			val.T = x.freshRef(st, "closure."+fn.Name())
			x.closureByTerm[val.T.S] = fv
		}
		x.setReg(st, fi, in, val)
	case *ssa.TypeAssert:
		x.doTypeAssert(st, fi, in)
	case *ssa.Extract:
		tv := x.val(st, fi, in.Tuple)
		if in.Index < len(tv.Tup) {
			x.setReg(st, fi, in, tv.Tup[in.Index])
		} else {
			x.errorf("extract from non-tuple at %s", x.pos(in.Pos()))
			x.setReg(st, fi, in, x.freshValue(st, "extract", in.Type()))
		}
	case *ssa.Phi:
		if v, ok := st.frames[fi].phiOv[in]; ok {
			x.setReg(st, fi, in, v)
			return
		}
		for i, p := range in.Block().Preds {
			if p == from {
				x.setReg(st, fi, in, x.val(st, fi, in.Edges[i]))
				return
			}
		}
		x.errorf("phi without matching predecessor")
	case *ssa.Convert:
		x.setReg(st, fi, in, x.convert(st, in, x.val(st, fi, in.X)))
	case *ssa.ChangeType:
		v := x.val(st, fi, in.X)
		v.Typ = in.Type()
		x.setReg(st, fi, in, v)
	case *ssa.ChangeInterface:
		v := x.val(st, fi, in.X)
		v.Typ = in.Type()
		x.setReg(st, fi, in, v)
	case *ssa.MapUpdate:
		m, k, v := x.val(st, fi, in.Map), x.val(st, fi, in.Key), x.val(st, fi, in.Value)
		mt := in.Map.Type().Underlying().(*types.Map)
		x.nilCheck(st, m.T, exprText(in.Map)+" (map write)", in.Pos())
		x.mapStore(st, m.T, mt, k.T, x.valueTerm(v))
		// ghost anchor "mapupdate#k" (k-th map store of the function, block order)
		n := 0
		for _, b := range fr.fn.Blocks {
			for _, i := range b.Instrs {
				if _, ok := i.(*ssa.MapUpdate); ok {
					n++
					if i == instr {
						x.ghostAtX(st, fi, fmt.Sprintf("mapupdate#%d", n), "", nil, map[string]Value{"key": k, "value": v})
					}
				}
			}
		}
	case *ssa.Lookup:
		m, k := x.val(st, fi, in.X), x.val(st, fi, in.Index)
		mt, ok := in.X.Type().Underlying().(*types.Map)
		if !ok {
			x.setReg(st, fi, in, x.freshValue(st, "strindex", in.Type()))
			return
		}
		x.guardMap(st, mt, false, in.Pos())
		has := x.mapHas(st, st.heap, st.epoch, m.T, mt, k.T)
		raw := x.mapGet(st, st.heap, st.epoch, m.T, mt, k.T)
		val := Ite(has, raw, x.zero(mt.Elem()))
		if in.CommaOk {
			x.setReg(st, fi, in, Value{Tup: []Value{{T: val, Typ: mt.Elem()}, {T: has, Typ: types.Typ[types.Bool]}}, Typ: in.Type()})
		} else {
			x.setReg(st, fi, in, Value{T: val, Typ: mt.Elem()})
		}
		st.assume(Implies(has, x.wellTyped(st, raw, mt.Elem())))
	case *ssa.Range:
		m := x.val(st, fi, in.X)
		mt, ok := in.X.Type().Underlying().(*types.Map)
		if !ok {
			x.errorf("range over %s unsupported", in.X.Type())
			return
		}
		ks := x.sortOf(mt.Key())
		x.iterN++
		dom0, _, _, _, _ := x.mapArrs(st, st.heap, st.epoch, mt)
		d0 := x.decls.Fresh("range.dom0", ArraySort(ks, "Bool"))
		st.assume(Eq(d0, Select(dom0, m.T)))
		it := &IterVal{Map: m, Visited: Term{fmt.Sprintf("((as const (Array %s Bool)) false)", ks), ArraySort(ks, "Bool")}, Count: IntLit(0), Dom0: d0, id: x.iterN, ord: x.rangeOrdinal(fr.fn, in)}
		if st.ghostLoc == nil {
			st.ghostLoc = map[string]Value{}
		}
		st.ghostLoc[fmt.Sprintf("visited%d", it.ord)] = Value{T: it.Visited}
		st.ghostLoc[fmt.Sprintf("count%d", it.ord)] = Value{T: it.Count, Typ: types.Typ[types.Int]}
		c := x.newCell(fmt.Sprintf("$iter%d", x.iterN), nil)
		st.cells[c] = Value{It: it}
		fr.iterCells = cloneIterCells(fr.iterCells)
		fr.iterCells[in] = c
		x.setReg(st, fi, in, Value{It: it, Typ: in.Type()})
	case *ssa.Next:
		x.doNext(st, fi, in)
	case *ssa.Send:
		// channel send: no repository heap effect (may block)
		ch, v := x.val(st, fi, in.Chan), x.val(st, fi, in.X)
		x.chanSend(st, fi, ch, v, in)
	case *ssa.Select:
		x.doSelect(st, fi, in)
	case *ssa.SliceToArrayPointer:
		x.errorf("unsupported SliceToArrayPointer")
	default:
		x.errorf("unsupported instruction %T at %s", instr, x.pos(instr.Pos()))
	}
}

func cloneIterCells(m map[*ssa.Range]*Cell) map[*ssa.Range]*Cell {
	n := map[*ssa.Range]*Cell{}
	for k, v := range m {
		n[k] = v
	}
	return n
}

func isBoundWrapper(fn *ssa.Function) bool {
	n := fn.Name()
	return len(n) > 6 && n[len(n)-6:] == "$bound"
}

func (x *Exec) storeFieldRaw(st *State, base Term, root types.Type, path []int, v Term) {
	name, ft := x.fieldHeapName(root, path)
	sort := x.sortOf(ft)
	arr := x.heapGet(st, name, ArraySort("Ref", sort))
	x.heapSetRaw(st, name, Store(arr, base, v))
}

// heapSetRaw is heapSet without recording (allocation-time initialisation of
// fresh objects is not a visible write).
func (x *Exec) heapSetRaw(st *State, name string, t Term) {
	x.heapSorts[name] = t.Sort
	if len(t.S) > 60 {
		c := x.decls.Fresh(name, t.Sort)
		st.assume(Eq(c, t))
		t = c
	}
	st.heap[name] = t
}

func (x *Exec) doLoad(st *State, fi int, addr Value, addrV ssa.Value, t types.Type, pos token.Pos) Value {
	if addr.Loc == nil {
		// pointer to a heap struct: load the whole struct value
		pt, ok := addrV.Type().Underlying().(*types.Pointer)
		if ok && isStructVal(pt.Elem()) && !x.isOpaqueStruct(pt.Elem()) {
			x.nilCheck(st, addr.T, exprText(addrV), pos)
			for _, n := range x.locHeapNames(&Loc{Base: addr.T, Root: pt.Elem()}) {
				x.guardCheck(st, n, false, false, pos)
			}
			v, ft := x.loadField(st, st.heap, st.epoch, addr.T, pt.Elem(), nil)
			return Value{T: v, Typ: ft}
		}
		// pointer to a scalar on the heap (not modelled precisely)
		x.nilCheck(st, addr.T, exprText(addrV), pos)
		name := "P$" + x.sortOf(t)
		arr := x.heapGet(st, name, ArraySort("Ref", x.sortOf(t)))
		v := Select(arr, addr.T)
		st.assume(x.wellTyped(st, v, t))
		return Value{T: v, Typ: t}
	}
	l := addr.Loc
	if l.Cell == nil {
		for _, n := range x.locHeapNames(l) {
			x.guardCheck(st, n, false, false, pos)
		}
	}
	v := x.loadLoc(st, l, nil, "")
	if l.Cell == nil && v.T.S != "" {
		st.assume(x.wellTyped(st, v.T, v.Typ))
	}
	if v.Typ == nil {
		v.Typ = t
	}
	return v
}

func (x *Exec) doStore(st *State, fi int, addr Value, v Value, addrV ssa.Value, pos token.Pos) {
	if addr.Loc == nil {
		pt, ok := addrV.Type().Underlying().(*types.Pointer)
		if ok && isStructVal(pt.Elem()) && !x.isOpaqueStruct(pt.Elem()) {
			x.nilCheck(st, addr.T, exprText(addrV), pos)
			l := &Loc{Base: addr.T, Root: pt.Elem()}
			for _, n := range x.locHeapNames(l) {
				x.guardCheck(st, n, true, false, pos)
				x.recHeapObj(n, addr.T)
			}
			x.storeField(st, addr.T, pt.Elem(), nil, v.T)
			return
		}
		x.nilCheck(st, addr.T, exprText(addrV), pos)
		vt := x.valueTerm(v)
		name := "P$" + vt.Sort
		arr := x.heapGet(st, name, ArraySort("Ref", vt.Sort))
		x.recHeap(name)
		x.heapSet(st, name, Store(arr, addr.T, vt))
		return
	}
	l := addr.Loc
	if l.Cell != nil {
		x.recCell(l.Cell)
		if len(l.Path) == 0 {
			st.cells[l.Cell] = v
			return
		}
		v.T = x.valueTerm(v)
		x.storeLoc(st, l, v)
		return
	}
	for _, n := range x.locHeapNames(l) {
		x.guardCheck(st, n, true, false, pos)
		switch {
		case l.Root != nil:
			x.recHeapObj(n, l.Base)
		case l.Arr.S != "":
			x.recHeapObj(n, l.Arr)
		default:
			x.recHeap(n)
		}
	}
	v.T = x.valueTerm(v)
	// a plain store to a field that the protocol declares as a step
	stepAnchor := ""
	if fi == 0 && x.ginv != nil && l.Root != nil && len(l.Path) > 0 {
		if sT, ok := structOf(l.Root); ok {
			a := "store " + sT.Field(l.Path[0]).Name()
			if x.isStep(a) {
				stepAnchor = a
				x.ginvBefore(st, fi, a)
			}
		}
	}
	x.storeLoc(st, l, v)
	x.ghostAtStore(st, fi, l)
	if stepAnchor != "" {
		x.ginvAfter(st, fi, stepAnchor, st.frames[fi].fn.Blocks[0].Instrs[0])
	}
}

func (x *Exec) binop(st *State, in *ssa.BinOp, a, b Value) Value {
	t := in.Type()
	at, bt := x.valueTerm(a), x.valueTerm(b)
	mk := func(tm Term) Value { return Value{T: tm, Typ: t} }
	switch in.Op {
	case token.ADD:
		if at.Sort == "Str" {
			return mk(App("strcat", "Str", at, bt))
		}
		return mk(x.arith(st, in, Add(at, bt)))
	case token.SUB:
		return mk(x.arith(st, in, Sub(at, bt)))
	case token.MUL:
		return mk(x.arith(st, in, App("*", "Int", at, bt)))
	case token.QUO:
		x.oblige(st, "div0", exprText(in.Y), "", Not(Eq(bt, IntLit(0))), in.Pos())
		r := x.decls.Fresh("quo", "Int")
		// truncated division for non-negative operands
		st.assume(Implies(And(Le(IntLit(0), at), Lt(IntLit(0), bt)),
			And(Le(App("*", "Int", bt, r), at), Lt(at, App("*", "Int", bt, Add(r, IntLit(1)))))))
		return mk(r)
	case token.REM:
		x.oblige(st, "div0", exprText(in.Y), "", Not(Eq(bt, IntLit(0))), in.Pos())
		return mk(x.gomod(at, bt))
	case token.EQL, token.NEQ:
		var eq Term
		switch {
		case at.Sort == "Slice":
			// only comparison against nil is legal
			if bt.S == x.nilSlice().S {
				eq = Eq(sArr(at), NullT)
			} else {
				eq = Eq(sArr(bt), NullT)
			}
		case at.Sort == "Iface" && bt.S == x.nilIface().S:
			eq = Eq(iTag(at), IntLit(0))
		case bt.Sort == "Iface" && at.S == x.nilIface().S:
			eq = Eq(iTag(bt), IntLit(0))
		default:
			eq = Eq(at, bt)
		}
		if in.Op == token.NEQ {
			eq = Not(eq)
		}
		return mk(eq)
	case token.LSS:
		return mk(Lt(at, bt))
	case token.LEQ:
		return mk(Le(at, bt))
	case token.GTR:
		return mk(Lt(bt, at))
	case token.GEQ:
		return mk(Le(bt, at))
	case token.LAND:
		return mk(And(at, bt))
	case token.LOR:
		return mk(Or(at, bt))
	}
	// bit operations etc.: uninterpreted
	fn := "bitop$" + sanitize(in.Op.String())
	fn = fmt.Sprintf("bitop$%d", int(in.Op))
	x.decls.Fun(fn, []string{"Int", "Int"}, "Int")
	return mk(App(fn, "Int", at, bt))
}

func (x *Exec) arith(st *State, in *ssa.BinOp, t Term) Term {
	if x.overflow {
		if b, ok := in.Type().Underlying().(*types.Basic); ok {
			switch b.Kind() {
			case types.Int64, types.Int:
				x.oblige(st, "overflow", exprText(in.X)+in.Op.String()+exprText(in.Y), "",
					And(Le(IntLitS("-9223372036854775808"), t), Le(t, IntLitS("9223372036854775807"))), in.Pos())
			case types.Int32:
				x.oblige(st, "overflow", exprText(in.X)+in.Op.String()+exprText(in.Y), "",
					And(Le(IntLitS("-2147483648"), t), Le(t, IntLitS("2147483647"))), in.Pos())
			}
		}
	}
	return t
}

func (x *Exec) convert(st *State, in *ssa.Convert, v Value) Value {
	from, to := x.sortOf(in.X.Type()), x.sortOf(in.Type())
	if from == to {
		if from == "Int" && x.overflow {
			if b, ok := in.Type().Underlying().(*types.Basic); ok && b.Kind() == types.Int32 {
				x.oblige(st, "overflow", "int32("+exprText(in.X)+")", "",
					And(Le(IntLitS("-2147483648"), v.T), Le(v.T, IntLitS("2147483647"))), in.Pos())
			}
		}
		return Value{T: v.T, Typ: in.Type()}
	}
	fn := fmt.Sprintf("conv$%s$%s", from, to)
	x.decls.Fun(fn, []string{from}, to)
	r := App(fn, to, v.T)
	st.assume(x.wellTyped(st, r, in.Type()))
	return Value{T: r, Typ: in.Type()}
}

func (x *Exec) doSlice(st *State, fi int, in *ssa.Slice) {
	base := x.val(st, fi, in.X)
	var lo, hi Term
	if in.Low != nil {
		lo = x.val(st, fi, in.Low).T
	} else {
		lo = IntLit(0)
	}
	switch bt := in.X.Type().Underlying().(type) {
	case *types.Slice:
		if in.High != nil {
			hi = x.val(st, fi, in.High).T
		} else {
			hi = sLen(base.T)
		}
		mx := sCap(base.T)
		if in.Max != nil {
			mx = x.val(st, fi, in.Max).T
		}
		x.oblige(st, "bounds", exprText(in.X)+"[:]", "", And(Le(IntLit(0), lo), Le(lo, hi), Le(hi, mx), Le(mx, sCap(base.T))), in.Pos())
		x.setReg(st, fi, in, Value{T: mkSlice(sArr(base.T), Add(sOff(base.T), lo), Sub(hi, lo), Sub(mx, lo)), Typ: in.Type()})
	case *types.Pointer:
		at := bt.Elem().Underlying().(*types.Array)
		n := IntLit(at.Len())
		if in.High != nil {
			hi = x.val(st, fi, in.High).T
		} else {
			hi = n
		}
		x.oblige(st, "bounds", exprText(in.X)+"[:]", "", And(Le(IntLit(0), lo), Le(lo, hi), Le(hi, n)), in.Pos())
		x.setReg(st, fi, in, Value{T: mkSlice(base.T, lo, Sub(hi, lo), Sub(n, lo)), Typ: in.Type()})
	case *types.Basic:
		if in.High != nil {
			hi = x.val(st, fi, in.High).T
		} else {
			hi = App("strlen", "Int", base.T)
		}
		x.oblige(st, "bounds", exprText(in.X)+"[:]", "", And(Le(IntLit(0), lo), Le(lo, hi), Le(hi, App("strlen", "Int", base.T))), in.Pos())
		x.decls.Fun("substr", []string{"Str", "Int", "Int"}, "Str")
		x.setReg(st, fi, in, Value{T: App("substr", "Str", base.T, lo, hi), Typ: in.Type()})
	default:
		x.errorf("unsupported slice base %s", in.X.Type())
	}
}

func (x *Exec) doTypeAssert(st *State, fi int, in *ssa.TypeAssert) {
	v := x.val(st, fi, in.X)
	at := in.AssertedType
	_, toIface := at.Underlying().(*types.Interface)
	var ok Term
	var res Value
	if toIface {
		if types.Identical(at.Underlying(), in.X.Type().Underlying()) || isEmptyIface(at) {
			ok = Not(Eq(iTag(v.T), IntLit(0)))
		} else {
			ok = And(Not(Eq(iTag(v.T), IntLit(0))), App(x.implPred(at), "Bool", iTag(v.T)))
		}
		res = Value{T: v.T, Typ: at}
	} else {
		ok = Eq(iTag(v.T), x.tagOf(at))
		res = Value{T: x.unbox(v.T, at), Typ: at}
	}
	if in.CommaOk {
		val := res
		if !toIface {
			val.T = Ite(ok, res.T, x.zero(at))
		} else {
			val.T = Ite(ok, res.T, x.nilIface())
		}
		// name the ok flag so models are readable
		okc := x.decls.Fresh("isa."+x.typeName(at), "Bool")
		st.assume(Eq(okc, ok))
		if !toIface {
			st.assume(Implies(okc, x.wellTyped(st, res.T, at)))
		}
		x.setReg(st, fi, in, Value{Tup: []Value{val, {T: okc, Typ: types.Typ[types.Bool]}}, Typ: in.Type()})
		return
	}
	x.oblige(st, "typeassert", exprText(in.X)+".("+x.typeName(at)+")", "", ok, in.Pos())
	if !toIface {
		st.assume(x.wellTyped(st, res.T, at))
	}
	x.setReg(st, fi, in, res)
}

func isEmptyIface(t types.Type) bool {
	i, ok := t.Underlying().(*types.Interface)
	return ok && i.NumMethods() == 0
}

func (x *Exec) guardMap(st *State, mt *types.Map, write bool, pos token.Pos) {
	dn, vn, _ := x.mapNames(mt)
	for _, n := range []string{dn, vn} {
		x.guardCheck(st, n, write, false, pos)
	}
}

func (x *Exec) mapStore(st *State, m Term, mt *types.Map, k, v Term) {
	dom, val, card, _, _ := x.mapArrs(st, st.heap, st.epoch, mt)
	dn, vn, cn := x.mapNames(mt)
	x.guardMap(st, mt, true, token.NoPos)
	had := Select(Select(dom, m), k)
	x.recHeap(dn)
	x.recHeap(vn)
	x.recHeap(cn)
	x.heapSet(st, cn, Store(card, m, Add(Select(card, m), Ite(had, IntLit(0), IntLit(1)))))
	x.heapSet(st, dn, Store(dom, m, Store(Select(dom, m), k, TrueT)))
	x.heapSet(st, vn, Store(val, m, Store(Select(val, m), k, v)))
}

func (x *Exec) mapDelete(st *State, m Term, mt *types.Map, k Term) {
	dom, _, card, _, _ := x.mapArrs(st, st.heap, st.epoch, mt)
	dn, _, cn := x.mapNames(mt)
	x.guardMap(st, mt, true, token.NoPos)
	has := x.mapHas(st, st.heap, st.epoch, m, mt, k)
	x.recHeap(dn)
	x.recHeap(cn)
	x.heapSet(st, cn, Store(card, m, Sub(Select(card, m), Ite(has, IntLit(1), IntLit(0)))))
	x.heapSet(st, dn, Store(dom, m, Store(Select(dom, m), k, FalseT)))
}

// doNext models one step of a map iteration: pick any unvisited key.
func (x *Exec) doNext(st *State, fi int, in *ssa.Next) {
	fr := st.frames[fi]
	rg, ok := in.Iter.(*ssa.Range)
	if !ok || in.IsString {
		x.errorf("unsupported Next")
		return
	}
	cell := fr.iterCells[rg]
	if cell == nil {
		x.errorf("Next without Range")
		return
	}
	itv := st.cells[cell]
	it := itv.It
	mt := rg.X.Type().Underlying().(*types.Map)
	m := it.Map.T
	dom, val, card, ks, _ := x.mapArrs(st, st.heap, st.epoch, mt)
	x.guardMap(st, mt, false, in.Pos())
	okc := x.decls.Fresh("range.ok", "Bool")
	k := x.decls.Fresh("range.key", ks)
	d := Select(dom, m)
	st.assume(Implies(okc, And(Not(Eq(m, NullT)), Select(d, k), Not(Select(it.Visited, k)))))
	st.assume(Implies(Not(okc), Or(Eq(m, NullT), Term{fmt.Sprintf("(forall ((?k %s)) (! (=> (select %s ?k) (select %s ?k)) :pattern ((select %s ?k)) :pattern ((select %s ?k))))", ks, d.S, it.Visited.S, d.S, it.Visited.S), "Bool"})))
	st.assume(Le(IntLit(0), Select(card, m)))
	// cardinality: while the key set is the one the iteration started with, the
	// number of visited keys is below the map's length as long as an unvisited
	// key exists, and equals it when the iteration ends
	if it.Count.S != "" && it.Dom0.S != "" {
		same := Eq(d, it.Dom0)
		st.assume(Le(IntLit(0), it.Count))
		st.assume(Implies(And(same, okc), Lt(it.Count, Select(card, m))))
		st.assume(Implies(And(same, Not(okc), Not(Eq(m, NullT))), Eq(it.Count, Select(card, m))))
	}
	v := Select(Select(val, m), k)
	st.assume(Implies(okc, x.wellTyped(st, v, mt.Elem())))
	nv := Store(it.Visited, k, TrueT)
	if len(nv.S) > 60 {
		c := x.decls.Fresh("visited", nv.Sort)
		st.assume(Eq(c, Ite(okc, nv, it.Visited)))
		nv = c
	} else {
		nv = Ite(okc, nv, it.Visited)
	}
	x.recCell(cell)
	nc := it.Count
	if nc.S != "" {
		nc = Ite(okc, Add(it.Count, IntLit(1)), it.Count)
	}
	st.cells[cell] = Value{It: &IterVal{Map: it.Map, Visited: nv, Count: nc, Dom0: it.Dom0, id: it.id, ord: it.ord}}
	// expose iteration ghost state to specs: visited<N>, and the current key
	if st.ghostLoc == nil {
		st.ghostLoc = map[string]Value{}
	}
	ord := x.rangeOrdinal(fr.fn, rg)
	st.ghostLoc[fmt.Sprintf("visited%d", ord)] = Value{T: nv}
	st.ghostLoc[fmt.Sprintf("visitedBefore%d", ord)] = Value{T: it.Visited}
	if nc.S != "" {
		st.ghostLoc[fmt.Sprintf("count%d", ord)] = Value{T: nc, Typ: types.Typ[types.Int]}
	}
	st.ghostLoc[fmt.Sprintf("key%d", ord)] = Value{T: k, Typ: mt.Key()}
	x.setReg(st, fi, in, Value{Tup: []Value{{T: okc, Typ: types.Typ[types.Bool]}, {T: k, Typ: mt.Key()}, {T: v, Typ: mt.Elem()}}, Typ: in.Type()})
}

func (x *Exec) rangeOrdinal(fn *ssa.Function, rg *ssa.Range) int {
	n := 0
	for _, b := range fn.Blocks {
		for _, i := range b.Instrs {
			if r, ok := i.(*ssa.Range); ok {
				n++
				if r == rg {
					return n
				}
			}
		}
	}
	return 0
}

// zeroArr is an (Array Int es) whose every element is the zero value.
func (x *Exec) zeroArr(es string, zero Term) Term {
	name := "zeroarr$" + es
	c := x.decls.Const(name, ArraySort("Int", es))
	x.decls.Axiom("zeroarr."+es, fmt.Sprintf("(forall ((?i Int)) (! (= (select %s ?i) %s) :pattern ((select %s ?i))))", name, zero.S, name))
	return c
}
