package main

// Verification driver for one function under contract.

import (
	"fmt"
	"go/types"
	"sort"
	"strings"
	"sync"
	"time"

	"golang.org/x/tools/go/ssa"
)

type FuncReport struct {
	Func      string
	Pkg       string
	Key       string
	Props     []string
	Obls      []*Obligation
	Errors    []string
	Warnings  []string
	Paths     int
	Externals []string
	Inlined   []string
	Used      []string
	Assumes   []string
	LibUsed   []string
	Loops     int
	LoopsInv  int
	NoInvLoops []string
	InheritedLoops map[string]bool
	GoStmts   []string
	LocksNoInv []string
	Secs      float64
	Trusted   bool
}

func (x *Exec) initGuards() {
	st := &State{cells: map[*Cell]Value{}, heap: map[string]Term{}, now: IntLit(0)}
	mute := x.muted
	x.muted++
	for _, g := range x.w.guards {
		pkg := x.w.typesPkg(x.w.guardPkg[g])
		if pkg == nil {
			continue
		}
		o := pkg.Scope().Lookup(g.Struct)
		if o == nil {
			x.errorf("guarded: unknown struct %s", g.Struct)
			continue
		}
		root := o.Type()
		obj := x.decls.Const("guardobj$"+g.Struct, "Ref")
		for _, item := range g.Footprint {
			env := &Env{x: x, st: st, fi: -1, vars: map[string]Value{g.Recv: {T: obj, Typ: types.NewPointer(root)}}, heap: st.heap, pkg: pkg, now: st.now}
			mods := map[string][]Term{}
			x.resolveModifies(st, env, item, mods, "footprint of "+g.Struct)
			for name := range mods {
				x.w.guardedArrays[name] = g
			}
		}
	}
	x.muted = mute
}

func bindParams(vars map[string]Value, fn *ssa.Function, c *Contract, args []Value) {
	for i, p := range fn.Params {
		if i >= len(args) {
			break
		}
		vars[p.Name()] = args[i]
		if c != nil && i < len(c.Aliases) && c.Aliases[i] != "" {
			vars[c.Aliases[i]] = args[i]
		}
	}
}

// VerifyFunc symbolically executes fn against contract c and returns the
// obligations (not yet discharged).
func VerifyFunc(w *World, rel string, c *Contract, fn *ssa.Function) *FuncReport {
	t0 := time.Now()
	x := NewExec(w)
	x.fn = fn
	x.contract = c
	x.pkg = w.typesPkg(c.Pkg)
	x.fnName = relOf(c.Pkg) + "." + c.Key
	x.overflow = c.Overflow
	x.prune = c.Prune
	x.closureByTerm = map[string]*FnVal{}
	x.isCancel = map[string]bool{}
	x.libUsed = map[string]bool{}
	x.goStmts = map[string]bool{}
	x.locksNoInv = map[string]bool{}
	x.usedGhost = map[string]bool{}
	x.loopHeapMods = map[string][]string{}
	x.initGuards()
	if c.Aliases == nil {
		// the header's names are bound by position, so renaming a parameter or
		// the receiver in the source does not detach the contract
		hasRecv := fn.Signature.Recv() != nil
		n := len(fn.Params)
		if hasRecv && len(c.ParamNames) == n-1 {
			cc := *c
			cc.Aliases = append([]string{c.RecvName}, c.ParamNames...)
			c = &cc
		} else if !hasRecv && len(c.ParamNames) == n && n > 0 {
			cc := *c
			cc.Aliases = append([]string{}, c.ParamNames...)
			c = &cc
		}
	}
	x.contract = c
	rep := &FuncReport{Func: x.fnName, Pkg: c.Pkg, Key: c.Key, Props: c.Props}

	func() {
		defer func() {
			if r := recover(); r != nil {
				if se, ok := r.(specError); ok {
					x.errorf("contract error: %s", se.msg)
					return
				}
				x.errorf("internal error: %v", r)
				if debugPanics {
					panic(r)
				}
			}
		}()
		st := &State{cells: map[*Cell]Value{}, heap: map[string]Term{}, now: x.decls.Const("now@entry", "Int")}
		st.constructing = c.Constructs
		var args []Value
		for _, p := range fn.Params {
			v := x.freshValue(st, "arg."+p.Name(), p.Type())
			args = append(args, v)
		}
		var bind []Value
		for _, fv := range fn.FreeVars {
			// closures verified stand-alone: free variables are cells with arbitrary content
			et := fv.Type().Underlying().(*types.Pointer).Elem()
			cell := x.newCell(fv.Name(), et)
			st.cells[cell] = x.freshValue(st, "free."+fv.Name(), et)
			bind = append(bind, Value{Loc: &Loc{Cell: cell}, Typ: fv.Type()})
		}
		st.oldHeap = map[string]Term{}
		st.oldEpoch = 0
		st.oldNow = st.now
		ret := func(st2 *State, res []Value) {
			x.npathsDone++
			env := x.envFor(st2, -1, false)
			env.pkg = x.pkg
			bindParams(env.vars, fn, c, args)
			// a closure verified on its own: its free variables by name
			for i, fv := range fn.FreeVars {
				if i < len(bind) && bind[i].Loc != nil {
					env.vars[fv.Name()] = x.loadLoc(st2, bind[i].Loc, nil, "")
					if a := x.freeVarAlias(fn, fv); a != "" {
						env.vars[a] = env.vars[fv.Name()]
					}
				}
			}
			x.bindResults(env, c, fn, res)
			for _, en := range c.Ensures {
				if t, ok := x.evalClause(st2, env, en); ok {
					x.oblige(st2, "ensures", en.Label, "", t, fn.Pos())
				}
			}
			for _, l := range st2.locks {
				x.oblige(st2, "lock", "held at return: "+l.guard.Struct+"."+l.guard.Mutex, "", FalseT, fn.Pos())
			}
			x.checkEmits(st2, env, c, fn, true)
			x.checkFrame(st2, c, fn, args, "return")
		}
		pan := func(st2 *State) {
			x.npathsDone++
			env := x.envFor(st2, -1, false)
			env.pkg = x.pkg
			bindParams(env.vars, fn, c, args)
			if st2.panicking != nil {
				env.vars["panicval"] = *st2.panicking
			}
			x.checkEmits(st2, env, c, fn, false)
			x.checkFrame(st2, c, fn, args, "panic")
			if c.NoPanic != nil {
				x.oblige(st2, "nopanic", c.NoPanic.Label, strings.Join(lastPanicTrace(st2.trace), ";"), FalseT, fn.Pos())
				return
			}
			if !c.MayPanic && len(c.EnsPanic) == 0 {
				x.oblige(st2, "nopanic", "", strings.Join(lastPanicTrace(st2.trace), ";"), FalseT, fn.Pos())
				return
			}
			for _, en := range c.EnsPanic {
				if t, ok := x.evalClause(st2, env, en); ok {
					x.oblige(st2, "ensures_panic", en.Label, "", t, fn.Pos())
				}
			}
		}
		x.ginv = x.protocolFor(c, fn, args)
		fi := x.pushFrame(st, fn, args, bind, c, ret, pan)
		// requires
		env := x.envFor(st, fi, false)
		for _, rq := range c.Requires {
			if t, ok := x.evalClause(st, env, rq); ok {
				st.assume(t)
			}
		}
		if x.ginv != nil && !c.Constructs {
			x.ginvAssume(st, fi)
		}
		if len(c.Requires) > 0 {
			x.reach(st, "entry")
		}
		x.ghostAt(st, fi, "entry", "", nil)
		x.runBody(st, fi)
	}()

	// every ghost statement must have been reached on some path: an anchor that
	// names a call/store the function no longer has means the contract does not
	// fit the code (reported as a contract mismatch, never as a pass)
	if len(x.errors) == 0 {
		check := func(cc *Contract) {
			for _, g := range cc.Ghosts {
				if !x.usedGhost[fmt.Sprintf("%s:%d", cc.Key, g.Line)] {
					x.errorf("contract-mismatch: ghost anchor %q of %s (line %d) is never reached", g.Anchor, cc.Key, g.Line)
				}
			}
		}
		check(c)
		if cf := w.contracts[rel]; cf != nil {
			for _, k := range sortedKeys(cf.Funcs) {
				if cc := cf.Funcs[k]; cc.Inline && strings.HasPrefix(k, c.Key+"$") {
					check(cc)
				}
			}
		}
	}
	rep.Obls = x.obls
	for _, ob := range rep.Obls {
		ob.Query = x.query(ob, true)
		if ob.PrePC != nil {
			pre := *ob
			pre.PC = ob.PrePC
			ob.PreQuery = x.query(&pre, false)
		}
	}
	rep.Errors = x.errors
	rep.Warnings = x.warnings
	rep.Paths = x.npathsDone
	rep.Externals = sortedKeys(x.externals)
	rep.Inlined = sortedKeys(x.inlined)
	rep.Used = sortedKeys(x.usedContracts)
	rep.LibUsed = sortedKeys(x.libUsed)
	rep.Assumes = x.assumes
	rep.GoStmts = sortedKeys(x.goStmts)
	rep.LocksNoInv = sortedKeys(x.locksNoInv)
	rep.Loops = len(x.info(fn).loops)
	rep.LoopsInv = len(c.Loops)
	rep.NoInvLoops = sortedKeys(x.noInvLoops)
	rep.InheritedLoops = x.inheritedLoops
	rep.Secs = time.Since(t0).Seconds()
	return rep
}

// checkEmits: a verified function with emits clauses appends exactly those
// events, in order, to the effect log (emits: on every outcome; emits_ok: on
// normal return only), and nothing else.
func (x *Exec) checkEmits(st *State, env *Env, c *Contract, fn *ssa.Function, normal bool) {
	if len(c.Emits)+len(c.EmitsOK) == 0 || st.dead {
		return
	}
	list := append([]string(nil), c.Emits...)
	if normal {
		list = append(list, c.EmitsOK...)
	}
	defer func() {
		if r := recover(); r != nil {
			if se, ok := r.(specError); ok {
				x.errorf("emits of %s: %s", c.Key, se.msg)
				return
			}
			panic(r)
		}
	}()
	env.where = "emits of " + c.Key
	log0 := x.heapInit("G$log", ArraySort("Int", "Event"), 0)
	len0 := x.heapInit("G$loglen", "Int", 0)
	want := log0
	n := len0
	for _, em := range list {
		cond := TrueT
		text := em
		if j := strings.Index(em, " if "); j >= 0 {
			text = strings.TrimSpace(em[:j])
			cond = env.EvalBool(strings.TrimSpace(em[j+4:]))
		}
		ev := env.EvalText(text)
		want = Ite(cond, Store(want, n, ev.T), want)
		n = Ite(cond, Add(n, IntLit(1)), n)
	}
	cur := x.heapGet(st, "G$log", ArraySort("Int", "Event"))
	curN := x.heapGet(st, "G$loglen", "Int")
	where := "return"
	if !normal {
		where = "panic"
	}
	x.oblige(st, "emits", "exactly the declared events", where, And(Eq(curN, n), Eq(cur, want)), fn.Pos())
}

// checkFrame: the function's `modifies` clause is an obligation on its body.
// Every heap array the body touched must, at exit, agree with its entry
// version on all objects that existed at entry and are not named by the
// clause; a whole-heap havoc inside the body (unknown callee) needs
// `modifies heap` (or `heap except P`, which keeps the arrays with prefix P
// under the same rule). A function without a modifies clause is applied at
// call sites as "may change everything", so there is nothing to check.
func (x *Exec) checkFrame(st *State, c *Contract, fn *ssa.Function, args []Value, where string) {
	if !c.HasMod && !c.Pure {
		return
	}
	if st.dead {
		return
	}
	full := false
	var except []string
	mods := map[string][]Term{}
	env := x.envFor(st, -1, false)
	env.pkg = x.pkg
	env.heap, env.epoch, env.now = map[string]Term{}, 0, x.decls.Const("now@entry", "Int")
	bindParams(env.vars, fn, c, args)
	for _, m := range c.Modifies {
		m = strings.TrimSpace(m)
		if m == "heap" {
			full = true
			continue
		}
		if strings.HasPrefix(m, "heap except ") {
			full = true
			for _, p := range strings.Fields(m[len("heap except "):]) {
				if p == "private" {
					except = append(except, x.w.privatePrefixes()...)
				} else {
					except = append(except, p)
				}
			}
			continue
		}
		x.resolveModifies(st, env, m, mods, "modifies of "+c.Key)
	}
	protected := func(name string) bool {
		if strings.HasPrefix(name, "G$") {
			return true
		}
		if !full {
			return true
		}
		for _, p := range except {
			if strings.HasPrefix(name, p) {
				return true
			}
		}
		return false
	}
	if st.epoch != 0 && !full {
		x.oblige(st, "frame", "whole heap (unknown callee) but the contract does not say `modifies heap`", where, FalseT, fn.Pos())
		return
	}
	entryNow := x.decls.Const("now@entry", "Int")
	for _, name := range sortedKeys(x.heapSorts) {
		if !protected(name) {
			continue
		}
		sortS := x.heapSorts[name]
		cur := x.heapGet(st, name, sortS)
		was := x.heapInit(name, sortS, 0)
		if cur.S == was.S {
			continue
		}
		if (name == "G$log" || name == "G$loglen") && len(c.Emits)+len(c.EmitsOK) > 0 {
			continue // checked exactly by checkEmits
		}
		objs, listed := mods[name]
		if listed && (objs == nil || !strings.HasPrefix(sortS, "(Array Ref")) {
			continue // ghost variable / scalar named in the clause
		}
		if !strings.HasPrefix(sortS, "(Array Ref") {
			if _, shared := st.lockHavoc[name]; shared {
				continue // shared ghost state of a protocol: other threads change it
			}
			x.oblige(st, "frame", name, where, Eq(cur, was), fn.Pos())
			continue
		}
		var ds []string
		for _, o := range objs {
			ds = append(ds, fmt.Sprintf("(distinct ?r %s)", o.S))
		}
		for _, o := range st.lockHavoc[name] {
			ds = append(ds, fmt.Sprintf("(distinct ?r %s)", o.S))
		}
		goal := Term{fmt.Sprintf("(forall ((?r Ref)) (! (=> (and (< (atime ?r) %s) %s) (= (select %s ?r) (select %s ?r))) :pattern ((select %s ?r))))",
			entryNow.S, "(and true "+strings.Join(ds, " ")+")", cur.S, was.S, cur.S), "Bool"}
		x.oblige(st, "frame", name, where, goal, fn.Pos())
	}
}

func lastPanicTrace(tr []string) []string {
	var out []string
	for _, t := range tr {
		if strings.HasPrefix(t, "panic:") {
			out = append(out, t)
		}
	}
	return out
}

var debugPanics = false

// Discharge runs the solver portfolio over all obligations, in parallel.
func Discharge(obls []*Obligation, timeoutS int, confirm bool, workers int) {
	var wg sync.WaitGroup
	ch := make(chan *Obligation)
	// once one instance of an obligation name has failed the name has failed:
	// its remaining instances are not worth a solver timeout each
	var mu sync.Mutex
	failedNames := map[string]bool{}
	for i := 0; i < workers; i++ {
		wg.Add(1)
		go func() {
			defer wg.Done()
			for ob := range ch {
				if ob.Query == "" && ob.Result.Status != "" {
					continue // decided without a solver (syntactic scan)
				}
				if ob.Expect == "sat" {
					// reachability (vacuity guard): only a refutation is a failure
					r := runOne(solverSpecs[0], "(set-option :smt.mbqi false)\n"+ob.Query, 3)
					if r.Status != "unsat" {
						r.Output = "reach: " + r.Status
						r.Status = "sat"
					} else if ob.PreQuery != "" {
						// unreachable after the call: vacuity only if the path was alive before it
						r0 := runOne(solverSpecs[0], "(set-option :smt.mbqi false)\n"+ob.PreQuery, 3)
						if r0.Status == "unsat" {
							r.Output = "reach: path already dead before the call"
							r.Status = "sat"
						}
					}
					ob.Result = r
					continue
				}
				t := timeoutS
				if ob.Timeout > 0 && ob.Timeout < t {
					t = ob.Timeout
				}
				mu.Lock()
				// (an instance on a tainted path decides nothing: only an untainted
				// failure ends the search, and tainted instances are not worth a
				// run once one of them has failed)
				already := failedNames[ob.Name] || (ob.Taint != "" && failedNames[ob.Name+"\x00tainted"])
				mu.Unlock()
				if already {
					ob.Result = SolverResult{Status: "skipped", Solver: "-", Output: "another instance of this obligation already failed"}
					continue
				}
				ob.Result = Solve(ob.Query, t, confirm)
				if ob.Result.Status != "unsat" && ob.Result.Status != "sat" && ob.Timeout == 0 && t <= 20 {
					// no answer within the quick budget: before an obligation that
					// discharges on the unchanged tree is reported as failed, give it
					// one more run with three times the budget (a loaded machine must
					// not turn into a false alarm)
					r2 := Solve(ob.Query, 3*t, confirm)
					r2.Secs += ob.Result.Secs
					ob.Result = r2
				}
				if ob.Result.Status != "unsat" {
					mu.Lock()
					if ob.Taint == "" {
						failedNames[ob.Name] = true
					} else {
						failedNames[ob.Name+"\x00tainted"] = true
					}
					mu.Unlock()
				}
			}
		}()
	}
	for _, ob := range obls {
		ch <- ob
	}
	close(ch)
	wg.Wait()
}

// OblSummary groups obligation instances by name.
type OblSummary struct {
	Name      string
	Func      string
	Kind      string
	Label     string
	Instances int
	Failed    []*Obligation
	Solver    string
	Secs      float64
	Expect    string
}

func Summarize(obls []*Obligation) []*OblSummary {
	m := map[string]*OblSummary{}
	var order []string
	for _, ob := range obls {
		s := m[ob.Name]
		if s == nil {
			s = &OblSummary{Name: ob.Name, Func: ob.Func, Kind: ob.Kind, Label: ob.Label, Expect: ob.Expect}
			m[ob.Name] = s
			order = append(order, ob.Name)
		}
		s.Instances++
		s.Secs += ob.Result.Secs
		if ob.Result.Status != ob.Expect {
			s.Failed = append(s.Failed, ob)
		} else if s.Solver == "" {
			s.Solver = ob.Result.Solver
		}
	}
	sort.Strings(order)
	var out []*OblSummary
	for _, n := range order {
		out = append(out, m[n])
	}
	return out
}

func (r *FuncReport) String() string {
	return fmt.Sprintf("%s: %d obligations, %d paths, %.1fs", r.Func, len(r.Obls), r.Paths, r.Secs)
}
