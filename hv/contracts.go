package main

// Parser for the //@ contract files (zz_contracts_verif.go in each package).

import (
	"fmt"
	"os"
	"path/filepath"
	"regexp"
	"strconv"
	"strings"
)

type Clause struct {
	Kind  string // requires ensures ensures_panic invariant decreases atunlock assume assert
	Label string
	Text  string
	Line  int
}

type LoopSpec struct {
	N          int
	Invariants []*Clause
	Decreases  *Clause
	Modifies   []string
	HasMod     bool
}

type GhostStmt struct {
	Anchor string // e.g. "call Push#1", "store proc#1", "return#1", "entry", "loop 1 head"
	When   string // "", "success", "failure" (for CAS-like calls), or "before"
	Stmts  []string
	Line   int
}

type Contract struct {
	Pkg        string // package path
	Key        string // e.g. "(*RingBuffer).Push"
	ParamNames []string
	ResNames   []string
	Props      []string
	Requires   []*Clause
	Ensures    []*Clause
	EnsPanic   []*Clause
	AtUnlock   []*Clause
	NoPanic    *Clause
	MayPanic   bool
	Modifies   []string
	HasMod     bool
	Loops      map[int]*LoopSpec
	Ghosts     []*GhostStmt
	Inline     bool
	Trusted    bool // contract is assumed; body not verified
	Abstract   bool // interface method / func type: no body
	Constructs bool // guard checks off (object under construction)
	Emits      []string // events appended to the effect log (normal and panicking outcome)
	EmitsOK    []string // events appended on normal return only (may mention results)
	Overflow   bool
	Pure       bool
	Prune      bool // drop branches whose path condition the solver refutes quickly
	Impls      bool // abstract interface-method contract: every implementation in the loaded packages that has no contract of its own is verified against it
	RecvName   string // receiver name used by the clauses (header `func (e *T).M(..)`); bound by position
	Aliases    []string // extra name per parameter (an implementation checked against an interface contract: self, then the interface's parameter names)
	Unfold     []string
	Line       int
	File       string
}

type Pred struct {
	Name   string
	Params []string
	Body   string
	Pkg    string // package whose scope resolves type names in the body
}

type GuardSpec struct {
	Struct    string // struct type name (without type args), in Pkg
	Mutex     string // mutex field name
	Recv      string // name binding the object in Footprint/Inv
	Footprint []string
	Inv       []*Clause
	AtomicInv []*Clause
	Fields    []string // guarded heap array name prefixes (computed by footprint)
}

type EventDecl struct {
	Name    string
	Fields  []string // names
	Sorts   []string
	GoTypes []string // optional Go type per field ("ctx Ref as *Context")
	Pkg     string
}

// GhostDef: a (possibly recursive) definition of a ghost function; instances
// are added only by explicit `unfold f(args)` ghost statements.
type GhostDef struct {
	Name   string
	Params []string
	Body   string
	Pkg    string
}

type GhostVar struct {
	Name   string
	Sort   string
	Init   string
	GoType string // optional ("ghost var curproc Ref as *process")
	Pkg    string
}

type GhostFun struct {
	Name   string
	Args   []string
	Ret    string
	GoType string // optional Go type of the result ("Ref as *PID"), resolved in Pkg
	Pkg    string
}

// ProtocolSpec: global-invariant mode for a structure whose state is shared
// between threads through atomic steps (Owicki-Gries with one invariant).
// Before every step of a method of Struct the shared state is havoced and the
// invariant (plus the thread's stable knowledge) assumed; after the step and
// the ghost updates attached to it the invariant is asserted.
type ProtocolSpec struct {
	Struct string
	Recv   string
	Shared []string  // fields (recv.f, recv.a.b) and ghost variables havoced before each step
	Inv    []*Clause // the global invariant
	Stable []*Clause // facts the current thread keeps knowing across other threads' steps
	Steps  []string  // step anchors without ordinal: "call CompareAndSwapInt32", "store proc", ...
	ThreadLocal []string // ghost variables that belong to one thread: a goroutine started with `go` begins with all of them false
	Pkg    string
}

type ContractFile struct {
	Pkg       string
	Path      string
	Funcs     map[string]*Contract
	Preds     map[string]*Pred
	Guards    []*GuardSpec
	Events    []*EventDecl
	GhostVars []*GhostVar
	GhostFuns []*GhostFun
	GhostDefs map[string]*GhostDef
	Axioms    []*Clause
	Private   []string // heap-name prefixes user code cannot modify
	Lemmas    []*Lemma
	Protocols []*ProtocolSpec
	Lines     int
}

type Lemma struct {
	Name    string
	Props   []string
	Vars    []string // "name Sort"
	Hyps    []*Clause
	Concl   []*Clause
	Line    int
}

var reLabel = regexp.MustCompile(`^(\w+)\[([^\]]+)\]\s*(.*)$`)

var clauseKW = map[string]bool{
	"props": true, "requires": true, "ensures": true, "ensures_panic": true, "nopanic": true,
	"maypanic": true, "modifies": true, "loop": true, "invariant": true, "decreases": true,
	"inline": true, "trusted": true, "abstract": true, "constructs": true, "ghost": true, "atunlock": true,
	"overflow": true, "pure": true, "prune": true, "assume": true, "unfold": true, "emits": true, "emits_ok": true,
	"var": true, "hyp": true, "concl": true, "implementations": true,
}

var topKW = map[string]bool{
	"func": true, "pred": true, "guarded": true, "lockinv": true, "atomicinv": true, "event": true,
	"axiom": true, "private": true, "lemma": true, "functype": true,
	"protocol": true, "shared": true, "inv": true, "stable": true, "steps": true, "threadlocal": true,
}

func splitLabel(rest string) (label, text string) {
	rest = strings.TrimSpace(rest)
	if strings.HasPrefix(rest, "[") {
		i := strings.Index(rest, "]")
		if i > 0 {
			return rest[1:i], strings.TrimSpace(rest[i+1:])
		}
	}
	return "", rest
}

func ParseContractFile(pkgPath, path string) (*ContractFile, error) {
	data, err := os.ReadFile(path)
	if err != nil {
		return nil, err
	}
	return ParseContracts(pkgPath, path, string(data))
}

func ParseContracts(pkgPath, path, src string) (*ContractFile, error) {
	cf := &ContractFile{Pkg: pkgPath, Path: path, Funcs: map[string]*Contract{}, Preds: map[string]*Pred{}}
	// collect logical lines
	type lline struct {
		text string
		line int
	}
	var lines []lline
	for i, raw := range strings.Split(src, "\n") {
		t := strings.TrimSpace(raw)
		if !strings.HasPrefix(t, "//@") {
			continue
		}
		t = strings.TrimSpace(t[3:])
		// strip trailing comment " // ..."
		if j := strings.Index(t, " // "); j >= 0 {
			t = strings.TrimSpace(t[:j])
		}
		if t == "" {
			continue
		}
		cf.Lines++
		first := t
		if j := strings.IndexAny(t, " \t[("); j >= 0 {
			first = t[:j]
		}
		if clauseKW[first] || topKW[first] {
			lines = append(lines, lline{t, i + 1})
		} else {
			if len(lines) == 0 {
				return nil, fmt.Errorf("%s:%d: continuation line without a clause", path, i+1)
			}
			lines[len(lines)-1].text += " " + t
		}
	}
	var cur *Contract
	var curLoop *LoopSpec
	var curGuard *GuardSpec
	var curLemma *Lemma
	var curProto *ProtocolSpec
	for _, ll := range lines {
		t := ll.text
		kw := t
		rest := ""
		if j := strings.IndexAny(t, " \t[("); j >= 0 {
			kw = t[:j]
			rest = strings.TrimSpace(t[j:])
			if t[j] == '[' || t[j] == '(' {
				rest = t[j:]
			}
		}
		errf := func(f string, a ...any) error {
			return fmt.Errorf("%s:%d: %s", path, ll.line, fmt.Sprintf(f, a...))
		}
		switch kw {
		case "func", "functype":
			c := &Contract{Pkg: pkgPath, Loops: map[int]*LoopSpec{}, Line: ll.line, File: path}
			// forms: func (*T).M(p1, p2) (r1, r2)  |  func Name(p) (r) | func (*T).M
			hdr := rest
			// optional receiver name: func (e *Engine).send(...) / func (e Event).Log()
			if m := regexp.MustCompile(`^\((\w+) (\*?[\w.]+)\)\.`).FindStringSubmatch(hdr); m != nil {
				c.RecvName = m[1]
				hdr = "(" + m[2] + ")." + hdr[len(m[0]):]
			}
			key := hdr
			// find parameter list: the first '(' that follows the name part
			nameEnd := len(hdr)
			if strings.HasPrefix(hdr, "(") {
				// receiver part "(...)." then name
				j := strings.Index(hdr, ").")
				if j < 0 {
					return nil, errf("bad func header %q", hdr)
				}
				k := j + 2
				for k < len(hdr) && (isIdent(hdr[k]) || hdr[k] == '$' || hdr[k] == '!') {
					k++
				}
				nameEnd = k
			} else {
				k := 0
				for k < len(hdr) && (isIdent(hdr[k]) || hdr[k] == '$' || hdr[k] == '.') {
					k++
				}
				nameEnd = k
			}
			key = hdr[:nameEnd]
			tail := strings.TrimSpace(hdr[nameEnd:])
			if strings.HasPrefix(tail, "(") {
				j := strings.Index(tail, ")")
				c.ParamNames = splitComma(tail[1:j])
				tail = strings.TrimSpace(tail[j+1:])
				if strings.HasPrefix(tail, "(") {
					j := strings.Index(tail, ")")
					c.ResNames = splitComma(tail[1:j])
					tail = strings.TrimSpace(tail[j+1:])
				}
			}
			c.Key = key
			// "func F(..) in G": the contract (loop invariants of an inlined callee)
			// applies only while G is the function under verification
			if strings.HasPrefix(tail, "in ") {
				c.Key = key + " in " + strings.TrimSpace(tail[3:])
			}
			if kw == "functype" {
				c.Key = "functype " + key
				c.Abstract = true
			}
			if _, dup := cf.Funcs[c.Key]; dup {
				return nil, errf("duplicate contract for %s", c.Key)
			}
			cf.Funcs[c.Key] = c
			cur, curLoop, curGuard, curLemma = c, nil, nil, nil
		case "protocol":
			re := regexp.MustCompile(`^(\w+)\((\w+)\)$`)
			m := re.FindStringSubmatch(strings.TrimSpace(rest))
			if m == nil {
				return nil, errf("bad protocol header")
			}
			curProto = &ProtocolSpec{Struct: m[1], Recv: m[2], Pkg: pkgPath}
			cf.Protocols = append(cf.Protocols, curProto)
			cur, curLoop, curGuard, curLemma = nil, nil, nil, nil
		case "shared", "inv", "stable", "steps", "threadlocal":
			if curProto == nil {
				return nil, errf("%s outside protocol", kw)
			}
			switch kw {
			case "shared":
				curProto.Shared = append(curProto.Shared, splitTopComma(rest)...)
			case "steps":
				curProto.Steps = append(curProto.Steps, splitTopComma(rest)...)
			case "threadlocal":
				curProto.ThreadLocal = append(curProto.ThreadLocal, splitTopComma(rest)...)
			case "inv":
				label, text := splitLabel(rest)
				curProto.Inv = append(curProto.Inv, &Clause{Kind: "ginv", Label: label, Text: text, Line: ll.line})
			case "stable":
				label, text := splitLabel(rest)
				curProto.Stable = append(curProto.Stable, &Clause{Kind: "stable", Label: label, Text: text, Line: ll.line})
			}
		case "pred":
			// pred name(a, b) := expr
			j := strings.Index(rest, ":=")
			if j < 0 {
				return nil, errf("pred needs :=")
			}
			hd := strings.TrimSpace(rest[:j])
			body := strings.TrimSpace(rest[j+2:])
			k := strings.Index(hd, "(")
			if k < 0 {
				return nil, errf("pred needs params")
			}
			p := &Pred{Name: strings.TrimSpace(hd[:k]), Params: splitComma(hd[k+1 : strings.LastIndex(hd, ")")]), Body: body, Pkg: pkgPath}
			cf.Preds[p.Name] = p
			cur, curLoop, curGuard, curLemma = nil, nil, nil, nil
		case "guarded":
			// guarded RingBuffer(rb) by mu footprint rb.content, rb.len, ...
			re := regexp.MustCompile(`^(\w+)\((\w+)\)\s+by\s+(\w+)\s+footprint\s+(.*)$`)
			m := re.FindStringSubmatch(rest)
			if m == nil {
				return nil, errf("bad guarded clause")
			}
			g := &GuardSpec{Struct: m[1], Recv: m[2], Mutex: m[3], Footprint: splitTopComma(m[4])}
			cf.Guards = append(cf.Guards, g)
			cur, curLoop, curGuard, curLemma = nil, nil, g, nil
		case "lockinv":
			if curGuard == nil {
				return nil, errf("lockinv without guarded")
			}
			label, text := splitLabel(rest)
			curGuard.Inv = append(curGuard.Inv, &Clause{Kind: "lockinv", Label: label, Text: text, Line: ll.line})
		case "atomicinv":
			if curGuard == nil {
				return nil, errf("atomicinv without guarded")
			}
			label, text := splitLabel(rest)
			curGuard.AtomicInv = append(curGuard.AtomicInv, &Clause{Kind: "atomicinv", Label: label, Text: text, Line: ll.line})
		case "event":
			// event Deliver(fn Ref, ctx Ref)
			k := strings.Index(rest, "(")
			ev := &EventDecl{Name: strings.TrimSpace(rest[:k]), Pkg: pkgPath}
			for _, f := range splitComma(rest[k+1 : strings.LastIndex(rest, ")")]) {
				gt := ""
				if j := strings.Index(f, " as "); j >= 0 {
					gt = strings.TrimSpace(f[j+4:])
					f = f[:j]
				}
				parts := strings.Fields(f)
				if len(parts) != 2 {
					return nil, errf("bad event field %q", f)
				}
				ev.Fields = append(ev.Fields, parts[0])
				ev.Sorts = append(ev.Sorts, parts[1])
				ev.GoTypes = append(ev.GoTypes, gt)
			}
			cf.Events = append(cf.Events, ev)
			cur, curLoop, curGuard, curLemma = nil, nil, nil, nil
		case "axiom":
			label, text := splitLabel(rest)
			cf.Axioms = append(cf.Axioms, &Clause{Kind: "axiom", Label: label, Text: text, Line: ll.line})
			cur, curLoop, curGuard, curLemma = nil, nil, nil, nil
		case "private":
			cf.Private = append(cf.Private, splitComma(rest)...)
			cur, curLoop, curGuard, curLemma = nil, nil, nil, nil
		case "lemma":
			lm := &Lemma{Name: strings.TrimSpace(rest), Line: ll.line}
			cf.Lemmas = append(cf.Lemmas, lm)
			cur, curLoop, curGuard, curLemma = nil, nil, nil, lm
		case "var":
			if curLemma == nil {
				return nil, errf("var outside lemma")
			}
			curLemma.Vars = append(curLemma.Vars, splitComma(rest)...)
		case "hyp":
			if curLemma == nil {
				return nil, errf("hyp outside lemma")
			}
			label, text := splitLabel(rest)
			curLemma.Hyps = append(curLemma.Hyps, &Clause{Kind: "hyp", Label: label, Text: text, Line: ll.line})
		case "concl":
			if curLemma == nil {
				return nil, errf("concl outside lemma")
			}
			label, text := splitLabel(rest)
			curLemma.Concl = append(curLemma.Concl, &Clause{Kind: "concl", Label: label, Text: text, Line: ll.line})
		case "ghost":
			// top-level: ghost var name Sort [= init] | ghost func name(S, S) S
			// in func: ghost at <anchor> [on success|failure]: stmt; stmt
			if strings.HasPrefix(rest, "var ") {
				f := strings.Fields(rest[4:])
				if len(f) < 2 {
					return nil, errf("bad ghost var")
				}
				gv := &GhostVar{Name: f[0], Sort: f[1], Pkg: pkgPath}
				if j := strings.Index(rest, " as "); j >= 0 {
					gv.GoType = strings.TrimSpace(rest[j+4:])
					rest = strings.TrimSpace(rest[:j])
				}
				if j := strings.Index(rest, "="); j >= 0 {
					gv.Init = strings.TrimSpace(rest[j+1:])
					// sort may contain spaces e.g. (Array Int Event)
					gv.Sort = strings.TrimSpace(rest[4+len(f[0])+1 : j])
				} else {
					gv.Sort = strings.TrimSpace(rest[4+len(f[0])+1:])
				}
				cf.GhostVars = append(cf.GhostVars, gv)
				continue
			}
			if strings.HasPrefix(rest, "def ") {
				// ghost def name(a, b) := body
				j := strings.Index(rest, ":=")
				if j < 0 {
					return nil, errf("ghost def needs :=")
				}
				hd := strings.TrimSpace(rest[4:j])
				k := strings.Index(hd, "(")
				if k < 0 {
					return nil, errf("ghost def needs params")
				}
				gd := &GhostDef{Name: strings.TrimSpace(hd[:k]), Params: splitComma(hd[k+1 : strings.LastIndex(hd, ")")]), Body: strings.TrimSpace(rest[j+2:]), Pkg: pkgPath}
				if cf.GhostDefs == nil {
					cf.GhostDefs = map[string]*GhostDef{}
				}
				cf.GhostDefs[gd.Name] = gd
				continue
			}
			if strings.HasPrefix(rest, "func ") {
				r := strings.TrimSpace(rest[5:])
				k := strings.Index(r, "(")
				k2 := k
				for d := 0; k2 < len(r); k2++ {
					if r[k2] == '(' {
						d++
					} else if r[k2] == ')' {
						d--
						if d == 0 {
							break
						}
					}
				}
				gf := &GhostFun{Name: strings.TrimSpace(r[:k]), Args: splitTopComma(r[k+1 : k2]), Ret: strings.TrimSpace(r[k2+1:]), Pkg: pkgPath}
				if j := strings.Index(gf.Ret, " as "); j >= 0 {
					gf.GoType = strings.TrimSpace(gf.Ret[j+4:])
					gf.Ret = strings.TrimSpace(gf.Ret[:j])
				}
				cf.GhostFuns = append(cf.GhostFuns, gf)
				continue
			}
			if cur == nil {
				return nil, errf("ghost statement outside func")
			}
			if !strings.HasPrefix(rest, "at ") {
				return nil, errf("ghost needs 'at <anchor>:'")
			}
			j := strings.Index(rest, ":")
			if j < 0 {
				return nil, errf("ghost needs ':'")
			}
			anchor := strings.TrimSpace(rest[3:j])
			gs := &GhostStmt{Line: ll.line}
			for _, suf := range []string{" on success", " on failure", " before"} {
				if strings.HasSuffix(anchor, suf) {
					gs.When = strings.TrimSpace(strings.TrimPrefix(suf, " on"))
					anchor = strings.TrimSuffix(anchor, suf)
				}
			}
			gs.Anchor = anchor
			for _, s := range strings.Split(rest[j+1:], ";") {
				if s = strings.TrimSpace(s); s != "" {
					gs.Stmts = append(gs.Stmts, s)
				}
			}
			cur.Ghosts = append(cur.Ghosts, gs)
		default:
			if cur == nil {
				return nil, errf("clause %q outside func", kw)
			}
			label, text := splitLabel(rest)
			cl := &Clause{Kind: kw, Label: label, Text: text, Line: ll.line}
			switch kw {
			case "props":
				cur.Props = append(cur.Props, strings.Fields(rest)...)
			case "requires":
				cur.Requires = append(cur.Requires, cl)
			case "ensures":
				cur.Ensures = append(cur.Ensures, cl)
			case "ensures_panic":
				cur.EnsPanic = append(cur.EnsPanic, cl)
			case "atunlock":
				cur.AtUnlock = append(cur.AtUnlock, cl)
			case "nopanic":
				cur.NoPanic = cl
			case "maypanic":
				cur.MayPanic = true
			case "modifies":
				if curLoop != nil {
					curLoop.Modifies = append(curLoop.Modifies, splitTopComma(rest)...)
					curLoop.HasMod = true
				} else {
					cur.Modifies = append(cur.Modifies, splitTopComma(rest)...)
					cur.HasMod = true
				}
			case "loop":
				n, err := strconv.Atoi(strings.TrimSpace(rest))
				if err != nil {
					return nil, errf("bad loop ordinal")
				}
				curLoop = &LoopSpec{N: n}
				cur.Loops[n] = curLoop
			case "invariant":
				if curLoop == nil {
					return nil, errf("invariant outside loop")
				}
				curLoop.Invariants = append(curLoop.Invariants, cl)
			case "decreases":
				if curLoop == nil {
					return nil, errf("decreases outside loop")
				}
				curLoop.Decreases = cl
			case "inline":
				cur.Inline = true
			case "trusted":
				cur.Trusted = true
			case "abstract":
				cur.Abstract = true
			case "constructs":
				cur.Constructs = true
			case "overflow":
				cur.Overflow = true
			case "pure":
				cur.Pure = true
			case "implementations":
				cur.Impls = true
			case "prune":
				cur.Prune = true
			case "unfold":
				cur.Unfold = append(cur.Unfold, rest)
			case "emits":
				cur.Emits = append(cur.Emits, rest)
			case "emits_ok":
				cur.EmitsOK = append(cur.EmitsOK, rest)
			default:
				return nil, errf("unknown clause %q", kw)
			}
		}
	}
	return cf, nil
}

func isIdent(c byte) bool {
	return c == '_' || (c >= 'a' && c <= 'z') || (c >= 'A' && c <= 'Z') || (c >= '0' && c <= '9')
}

func splitComma(s string) []string {
	var out []string
	for _, p := range strings.Split(s, ",") {
		if p = strings.TrimSpace(p); p != "" {
			out = append(out, p)
		}
	}
	return out
}

// splitTopComma splits on commas that are not nested in parentheses/brackets.
func splitTopComma(s string) []string {
	var out []string
	depth := 0
	start := 0
	for i := 0; i < len(s); i++ {
		switch s[i] {
		case '(', '[', '{':
			depth++
		case ')', ']', '}':
			depth--
		case ',':
			if depth == 0 {
				if p := strings.TrimSpace(s[start:i]); p != "" {
					out = append(out, p)
				}
				start = i + 1
			}
		}
	}
	if p := strings.TrimSpace(s[start:]); p != "" {
		out = append(out, p)
	}
	return out
}

// contractPath returns the location of a package's contract file: in the
// repository if present, else the mirror under /verif/contracts.
func contractPath(repo, verif, rel string) (string, string) {
	p := filepath.Join(repo, rel, "zz_contracts_verif.go")
	if _, err := os.Stat(p); err == nil {
		return p, "repo"
	}
	m := filepath.Join(verif, "contracts", rel, "zz_contracts_verif.go")
	return m, "mirror"
}
