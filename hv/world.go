package main

// World: loaded packages, SSA program, contract files.

import (
	"fmt"
	"go/token"
	"go/types"
	"os"
	"path/filepath"
	"sort"
	"strings"

	"golang.org/x/tools/go/packages"
	"golang.org/x/tools/go/ssa"
	"golang.org/x/tools/go/ssa/ssautil"
)

const modPath = "github.com/anthdm/hollywood"

type World struct {
	repo, verif string
	fset        *token.FileSet
	prog        *ssa.Program
	pkgs        map[string]*ssa.Package // by rel dir
	tpkgs       map[string]*types.Package
	contracts   map[string]*ContractFile // by rel dir
	contractSrc map[string]string        // rel -> "repo"|"mirror"
	pkgOrder    []string
	fnInfos     map[*ssa.Function]*fnInfo
	guards      []*GuardSpec
	guardPkg    map[*GuardSpec]string
	guardedArrays map[string]*GuardSpec
	globals     map[*ssa.Global]*Cell
	ginfo       map[*ssa.Global]globalInfo
	overlay     map[string][]byte
}

func relOf(pkgPath string) string {
	return strings.TrimPrefix(strings.TrimPrefix(pkgPath, modPath), "/")
}

func LoadWorld(repo, verif string, rels []string, overlay map[string][]byte) (*World, error) {
	w := &World{repo: repo, verif: verif, pkgs: map[string]*ssa.Package{}, tpkgs: map[string]*types.Package{},
		contracts: map[string]*ContractFile{}, contractSrc: map[string]string{}, fnInfos: map[*ssa.Function]*fnInfo{},
		guardPkg: map[*GuardSpec]string{}, guardedArrays: map[string]*GuardSpec{}, globals: map[*ssa.Global]*Cell{}, overlay: overlay}
	cfg := &packages.Config{
		Mode:       packages.NeedName | packages.NeedFiles | packages.NeedCompiledGoFiles | packages.NeedImports | packages.NeedDeps | packages.NeedTypes | packages.NeedSyntax | packages.NeedTypesInfo | packages.NeedTypesSizes,
		Dir:        repo,
		BuildFlags: []string{"-tags=verif"},
		Overlay:    overlay,
		Env:        append(os.Environ(), "GOFLAGS=-mod=mod", "GOPROXY=off", "GOSUMDB=off", "GOTOOLCHAIN=local"),
	}
	var pats []string
	for _, r := range rels {
		pats = append(pats, "./"+r)
	}
	pkgs, err := packages.Load(cfg, pats...)
	if err != nil {
		return nil, err
	}
	var errs []string
	packages.Visit(pkgs, nil, func(p *packages.Package) {
		if strings.HasPrefix(p.PkgPath, modPath) {
			for _, e := range p.Errors {
				errs = append(errs, e.Error())
			}
		}
	})
	if len(errs) > 0 {
		return nil, fmt.Errorf("load errors: %s", strings.Join(errs, "; "))
	}
	prog, _ := ssautil.AllPackages(pkgs, ssa.NaiveForm)
	w.prog = prog
	w.fset = prog.Fset
	// build only repository packages
	for _, p := range prog.AllPackages() {
		if strings.HasPrefix(p.Pkg.Path(), modPath) {
			p.Build()
			rel := relOf(p.Pkg.Path())
			w.pkgs[rel] = p
			w.tpkgs[p.Pkg.Path()] = p.Pkg
			w.pkgOrder = append(w.pkgOrder, rel)
		}
	}
	sort.Strings(w.pkgOrder)
	for _, rel := range w.pkgOrder {
		path, src := contractPath(repo, verif, rel)
		var cf *ContractFile
		var err error
		if data, ok := overlay[path]; ok {
			cf, err = ParseContracts(modPath+"/"+rel, path, string(data))
		} else if _, serr := os.Stat(path); serr == nil {
			cf, err = ParseContractFile(modPath+"/"+rel, path)
		} else {
			continue
		}
		if err != nil {
			return nil, err
		}
		w.contracts[rel] = cf
		w.contractSrc[rel] = src
		for _, g := range cf.Guards {
			w.guards = append(w.guards, g)
			w.guardPkg[g] = cf.Pkg
		}
	}
	return w, nil
}

func (w *World) typesPkg(path string) *types.Package { return w.tpkgs[path] }

func (w *World) isRepoFn(fn *ssa.Function) bool {
	pkg, _ := contractKey(fn)
	return strings.HasPrefix(pkg, modPath)
}

func (w *World) findContract(pkg, key string) *Contract {
	cf := w.contracts[relOf(pkg)]
	if cf == nil {
		return nil
	}
	return cf.Funcs[key]
}

// findIfaceContract: contract "(Iface).Method" in the package declaring Iface.
func (w *World) findIfaceContract(it types.Type, method string) *Contract {
	it = types.Unalias(it)
	n, ok := it.(*types.Named)
	if !ok {
		return nil
	}
	if n.Obj().Pkg() == nil {
		// universe (error)
		return nil
	}
	pkg := n.Obj().Pkg().Path()
	key := "(" + n.Obj().Name() + ")." + method
	if c := w.findContract(pkg, key); c != nil {
		return c
	}
	// external interfaces may have contracts in any repo package file, keyed pkgname.Name
	key2 := "(" + n.Obj().Pkg().Name() + "." + n.Obj().Name() + ")." + method
	for _, cf := range w.contracts {
		if c := cf.Funcs[key2]; c != nil {
			return c
		}
	}
	return nil
}

func (w *World) findFuncTypeContract(ft types.Type) *Contract {
	name := ""
	switch t := ft.(type) {
	case *types.Named:
		name = t.Obj().Name()
		if t.Obj().Pkg() != nil {
			if c := w.findContract(t.Obj().Pkg().Path(), "functype "+name); c != nil {
				return c
			}
			name = t.Obj().Pkg().Name() + "." + name
		}
	case *types.Alias:
		name = t.Obj().Name()
		if t.Obj().Pkg() != nil {
			if c := w.findContract(t.Obj().Pkg().Path(), "functype "+name); c != nil {
				return c
			}
		}
		return w.findFuncTypeContract(types.Unalias(t))
	default:
		name = types.TypeString(ft, func(p *types.Package) string { return p.Name() })
	}
	for _, cf := range w.contracts {
		if c := cf.Funcs["functype "+name]; c != nil {
			return c
		}
	}
	// unnamed signature (aliases are transparent): match a declared functype
	// whose type is identical
	for _, rel := range w.pkgOrder {
		cf := w.contracts[rel]
		if cf == nil {
			continue
		}
		tp := w.typesPkg(cf.Pkg)
		if tp == nil {
			continue
		}
		for _, key := range sortedKeys(cf.Funcs) {
			if !strings.HasPrefix(key, "functype ") {
				continue
			}
			o := tp.Scope().Lookup(strings.TrimPrefix(key, "functype "))
			if tn, ok := o.(*types.TypeName); ok {
				if types.Identical(types.Unalias(tn.Type()).Underlying(), types.Unalias(ft).Underlying()) {
					return cf.Funcs[key]
				}
			}
		}
	}
	return nil
}

func (w *World) privatePrefixes() []string {
	var out []string
	for _, cf := range w.contracts {
		out = append(out, cf.Private...)
	}
	sort.Strings(out)
	return out
}

func (w *World) globalCell(x *Exec, g *ssa.Global) *Cell {
	if c, ok := w.globals[g]; ok {
		return c
	}
	c := &Cell{id: -len(w.globals) - 1, name: g.Name(), typ: g.Type().Underlying().(*types.Pointer).Elem(), global: g}
	w.globals[g] = c
	return c
}

// findFunc locates an SSA function by contract key in a package.
func (w *World) findFunc(rel, key string) *ssa.Function {
	// "F!impl": a second contract for F that is checked against F's body only
	// (call sites use the plain contract of F, an abstraction of it)
	key = strings.TrimSuffix(key, "!impl")
	p := w.pkgs[rel]
	if p == nil {
		return nil
	}
	var found *ssa.Function
	visit := func(fn *ssa.Function) {
		var rec func(f *ssa.Function)
		rec = func(f *ssa.Function) {
			if _, k := contractKey(f); k == key {
				found = f
			}
			for _, a := range f.AnonFuncs {
				rec(a)
			}
		}
		rec(fn)
	}
	for _, m := range p.Members {
		switch t := m.(type) {
		case *ssa.Function:
			visit(t)
		case *ssa.Type:
			if n, ok := t.Type().(*types.Named); ok {
				for i := 0; i < n.NumMethods(); i++ {
					if fn := w.prog.FuncValue(n.Method(i)); fn != nil {
						visit(fn)
					}
				}
			}
		}
	}
	return found
}

func mirrorContracts(repo, verif string) error {
	for _, rel := range []string{"ringbuffer", "safemap", "actor", "remote", "cluster"} {
		src := filepath.Join(repo, rel, "zz_contracts_verif.go")
		data, err := os.ReadFile(src)
		if err != nil {
			continue
		}
		dst := filepath.Join(verif, "contracts", rel, "zz_contracts_verif.go")
		os.MkdirAll(filepath.Dir(dst), 0o755)
		if err := os.WriteFile(dst, data, 0o644); err != nil {
			return err
		}
	}
	return nil
}

// implementations: the methods of named types in the loaded packages that
// implement the interface method an abstract contract `(I).M` speaks about.
// Methods that have a contract of their own are returned by name only.
func (w *World) implementations(c *Contract) (impls []*ssa.Function, own []string, err string) {
	key := c.Key
	if !strings.HasPrefix(key, "(") || !strings.Contains(key, ").") {
		return nil, nil, "contract-mismatch: `implementations` on " + key + ", which is not an interface method"
	}
	iname := key[1:strings.Index(key, ").")]
	mname := key[strings.Index(key, ").")+2:]
	tp := w.typesPkg(c.Pkg)
	if tp == nil {
		return nil, nil, "contract-mismatch: no package " + c.Pkg
	}
	obj := tp.Scope().Lookup(iname)
	if obj == nil {
		return nil, nil, "contract-mismatch: no type " + iname + " in " + c.Pkg
	}
	iface, ok := obj.Type().Underlying().(*types.Interface)
	if !ok {
		return nil, nil, "contract-mismatch: " + iname + " is not an interface"
	}
	for _, rel := range w.pkgOrder {
		p := w.pkgs[rel]
		if p == nil {
			continue
		}
		var names []string
		for n := range p.Members {
			names = append(names, n)
		}
		sort.Strings(names)
		for _, n := range names {
			t, ok := p.Members[n].(*ssa.Type)
			if !ok {
				continue
			}
			named, ok := t.Type().(*types.Named)
			if !ok || types.IsInterface(named) || named.TypeParams().Len() > 0 {
				continue
			}
			if !types.Implements(named, iface) && !types.Implements(types.NewPointer(named), iface) {
				continue
			}
			ms := types.NewMethodSet(types.NewPointer(named))
			sel := ms.Lookup(p.Pkg, mname)
			if sel == nil {
				continue
			}
			mf, ok := sel.Obj().(*types.Func)
			if !ok {
				continue
			}
			fn := w.prog.FuncValue(mf)
			if fn == nil || len(fn.Blocks) == 0 {
				continue
			}
			ipkg, ikey := contractKey(fn)
			if w.findContract(ipkg, ikey) != nil {
				own = append(own, relOf(ipkg)+"."+ikey)
				continue
			}
			impls = append(impls, fn)
		}
	}
	return impls, own, ""
}

// globalInfo: how a package-level variable is written. initOnly: its only
// stores are in the package initialiser and its address is used for nothing
// but loads, so it is a constant of the running program; nonNil: that one
// store puts the result of errors.New / fmt.Errorf there.
type globalInfo struct {
	initOnly bool
	nonNil   bool
}

func (w *World) globalInfoOf(g *ssa.Global) globalInfo {
	if w.ginfo == nil {
		w.ginfo = map[*ssa.Global]globalInfo{}
	}
	if gi, ok := w.ginfo[g]; ok {
		return gi
	}
	gi := globalInfo{initOnly: true}
	pkg := g.Pkg
	stores := 0
	var visit func(fn *ssa.Function)
	visit = func(fn *ssa.Function) {
		isInit := fn.Name() == "init" && fn.Parent() == nil && fn.Signature.Recv() == nil
		for _, b := range fn.Blocks {
			for _, in := range b.Instrs {
				for _, op := range in.Operands(nil) {
					if *op != ssa.Value(g) {
						continue
					}
					switch t := in.(type) {
					case *ssa.UnOp:
						// load
					case *ssa.Store:
						if t.Addr == ssa.Value(g) && isInit {
							stores++
							if c, ok := t.Val.(*ssa.Call); ok {
								if f := c.Call.StaticCallee(); f != nil && (f.String() == "errors.New" || f.String() == "fmt.Errorf") {
									gi.nonNil = true
								}
							}
							if mi, ok := t.Val.(*ssa.MakeInterface); ok {
								if c, ok := mi.X.(*ssa.Call); ok {
									if f := c.Call.StaticCallee(); f != nil && (f.String() == "errors.New" || f.String() == "fmt.Errorf") {
										gi.nonNil = true
									}
								}
							}
						} else {
							gi.initOnly = false
						}
					default:
						gi.initOnly = false
					}
				}
			}
		}
		for _, a := range fn.AnonFuncs {
			visit(a)
		}
	}
	if pkg != nil {
		for _, m := range pkg.Members {
			switch t := m.(type) {
			case *ssa.Function:
				visit(t)
			case *ssa.Type:
				if n, ok := t.Type().(*types.Named); ok {
					for i := 0; i < n.NumMethods(); i++ {
						if fn := w.prog.FuncValue(n.Method(i)); fn != nil {
							visit(fn)
						}
					}
				}
			}
		}
	} else {
		gi.initOnly = false
	}
	if g.Object() != nil && g.Object().Exported() {
		gi.initOnly = false // other packages may assign it
	}
	if stores != 1 {
		gi.nonNil = false
	}
	w.ginfo[g] = gi
	return gi
}
