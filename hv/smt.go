package main

// SMT term construction, declaration registry and solver portfolio.

import (
	"bytes"
	"context"
	"fmt"
	"os/exec"
	"sort"
	"strings"
	"sync"
	"time"
)

// Term is an SMT-LIB2 term with its sort.
type Term struct {
	S    string
	Sort string
}

func (t Term) String() string { return t.S }
func (t Term) IsZero() bool   { return t.S == "" }

var (
	TrueT  = Term{"true", "Bool"}
	FalseT = Term{"false", "Bool"}
	NullT  = Term{"null", "Ref"}
)

func IntLit(n int64) Term {
	if n < 0 {
		return Term{fmt.Sprintf("(- %d)", -n), "Int"}
	}
	return Term{fmt.Sprintf("%d", n), "Int"}
}

func IntLitS(s string) Term {
	if strings.HasPrefix(s, "-") {
		return Term{"(- " + s[1:] + ")", "Int"}
	}
	return Term{s, "Int"}
}

func BoolLit(b bool) Term {
	if b {
		return TrueT
	}
	return FalseT
}

func App(fn, sort string, args ...Term) Term {
	if len(args) == 0 {
		return Term{fn, sort}
	}
	var sb strings.Builder
	sb.WriteString("(")
	sb.WriteString(fn)
	for _, a := range args {
		sb.WriteString(" ")
		sb.WriteString(a.S)
	}
	sb.WriteString(")")
	return Term{sb.String(), sort}
}

func Not(a Term) Term {
	switch a.S {
	case "true":
		return FalseT
	case "false":
		return TrueT
	}
	if strings.HasPrefix(a.S, "(not ") {
		return Term{a.S[5 : len(a.S)-1], "Bool"}
	}
	return App("not", "Bool", a)
}

func And(ts ...Term) Term {
	var out []Term
	for _, t := range ts {
		if t.S == "true" {
			continue
		}
		if t.S == "false" {
			return FalseT
		}
		out = append(out, t)
	}
	if len(out) == 0 {
		return TrueT
	}
	if len(out) == 1 {
		return out[0]
	}
	return App("and", "Bool", out...)
}

func Or(ts ...Term) Term {
	var out []Term
	for _, t := range ts {
		if t.S == "false" {
			continue
		}
		if t.S == "true" {
			return TrueT
		}
		out = append(out, t)
	}
	if len(out) == 0 {
		return FalseT
	}
	if len(out) == 1 {
		return out[0]
	}
	return App("or", "Bool", out...)
}

func Implies(a, b Term) Term {
	if a.S == "true" {
		return b
	}
	if a.S == "false" || b.S == "true" {
		return TrueT
	}
	return App("=>", "Bool", a, b)
}

func Eq(a, b Term) Term {
	if a.S == b.S {
		return TrueT
	}
	return App("=", "Bool", a, b)
}

func Ite(c, a, b Term) Term {
	if c.S == "true" {
		return a
	}
	if c.S == "false" {
		return b
	}
	if a.S == b.S {
		return a
	}
	return App("ite", a.Sort, c, a, b)
}

func arrayElemSort(arrSort string) string {
	// (Array K V) -> V ; handles nesting
	parts := splitSexp(arrSort)
	if len(parts) == 3 && parts[0] == "Array" {
		return parts[2]
	}
	panic("not an array sort: " + arrSort)
}

func arrayKeySort(arrSort string) string {
	parts := splitSexp(arrSort)
	if len(parts) == 3 && parts[0] == "Array" {
		return parts[1]
	}
	panic("not an array sort: " + arrSort)
}

// splitSexp splits "(a b (c d))" into top-level items ["a","b","(c d)"].
func splitSexp(s string) []string {
	s = strings.TrimSpace(s)
	if !strings.HasPrefix(s, "(") {
		return []string{s}
	}
	s = s[1 : len(s)-1]
	var out []string
	depth := 0
	start := -1
	for i, c := range s {
		switch c {
		case '(':
			if depth == 0 && start < 0 {
				start = i
			}
			depth++
		case ')':
			depth--
			if depth == 0 {
				out = append(out, s[start:i+1])
				start = -1
			}
		case ' ', '\n', '\t':
			if depth == 0 && start >= 0 {
				out = append(out, s[start:i])
				start = -1
			}
		default:
			if start < 0 {
				start = i
			}
		}
	}
	if start >= 0 {
		out = append(out, s[start:])
	}
	return out
}

func ArraySort(k, v string) string { return "(Array " + k + " " + v + ")" }

func Select(a, i Term) Term { return App("select", arrayElemSort(a.Sort), a, i) }
func Store(a, i, v Term) Term {
	return App("store", a.Sort, a, i, v)
}

func Add(a, b Term) Term { return App("+", "Int", a, b) }
func Sub(a, b Term) Term { return App("-", "Int", a, b) }
func Lt(a, b Term) Term  { return App("<", "Bool", a, b) }
func Le(a, b Term) Term  { return App("<=", "Bool", a, b) }

// ---------------------------------------------------------------------------
// Declarations

type Decls struct {
	mu    sync.Mutex
	order []string          // declaration text in order
	names map[string]string // name -> decl text (dedupe)
	fresh map[string]int
	axioms []string
}

func NewDecls() *Decls {
	d := &Decls{names: map[string]string{}, fresh: map[string]int{}}
	return d
}

func (d *Decls) add(name, text string) {
	d.mu.Lock()
	defer d.mu.Unlock()
	if _, ok := d.names[name]; ok {
		return
	}
	d.names[name] = text
	d.order = append(d.order, text)
}

func (d *Decls) Has(name string) bool {
	d.mu.Lock()
	defer d.mu.Unlock()
	_, ok := d.names[name]
	return ok
}

func (d *Decls) Sort(name string) {
	d.add("sort:"+name, fmt.Sprintf("(declare-sort %s 0)", name))
}

func (d *Decls) Const(name, sort string) Term {
	d.add(name, fmt.Sprintf("(declare-const %s %s)", name, sort))
	return Term{name, sort}
}

func (d *Decls) Fun(name string, args []string, ret string) {
	d.add(name, fmt.Sprintf("(declare-fun %s (%s) %s)", name, strings.Join(args, " "), ret))
}

func (d *Decls) Raw(name, text string) { d.add(name, text) }

func (d *Decls) Axiom(name, text string) {
	d.add("axiom:"+name, "(assert "+text+")")
}

// Fresh returns a fresh constant of the given sort with a readable prefix.
func (d *Decls) Fresh(prefix, sort string) Term {
	d.mu.Lock()
	prefix = sanitize(prefix)
	n := d.fresh[prefix]
	d.fresh[prefix] = n + 1
	d.mu.Unlock()
	name := fmt.Sprintf("%s!%d", prefix, n)
	return d.Const(name, sort)
}

func (d *Decls) Text() string {
	d.mu.Lock()
	defer d.mu.Unlock()
	return strings.Join(d.order, "\n")
}

func sanitize(s string) string {
	var sb strings.Builder
	for _, c := range s {
		switch {
		case c >= 'a' && c <= 'z', c >= 'A' && c <= 'Z', c >= '0' && c <= '9', c == '_', c == '.', c == '$', c == '!':
			sb.WriteRune(c)
		case c == '*':
			sb.WriteString("p.")
		case c == '[':
			sb.WriteString("<")
		case c == ']':
			sb.WriteString(">")
		case c == '/':
			sb.WriteString(".")
		default:
			sb.WriteRune('_')
		}
	}
	return sb.String()
}

// ---------------------------------------------------------------------------
// Solver portfolio

type SolverResult struct {
	Status string // unsat | sat | unknown | timeout | error
	Solver string
	Model  string
	Output string
	Secs   float64
}

type solverSpec struct {
	name string
	argv func(timeoutS int) []string
	pre  string // text prepended to the query
}

var solverSpecs = []solverSpec{
	{"z3-new-5.1.0", func(t int) []string { return []string{"z3-new", "-in", fmt.Sprintf("-T:%d", t)} }, ""},
	{"z3-4.8.12", func(t int) []string { return []string{"z3", "-in", fmt.Sprintf("-T:%d", t)} }, ""},
	{"cvc5-1.0", func(t int) []string {
		return []string{"cvc5", "--lang=smt2", fmt.Sprintf("--tlimit=%d", t*1000), "--produce-models"}
	}, "(set-logic ALL)\n"},
}

func runOne(sp solverSpec, query string, timeoutS int) SolverResult {
	ctx, cancel := context.WithTimeout(context.Background(), time.Duration(timeoutS+2)*time.Second)
	defer cancel()
	argv := sp.argv(timeoutS)
	cmd := exec.CommandContext(ctx, argv[0], argv[1:]...)
	cmd.Stdin = strings.NewReader(sp.pre + query)
	var out bytes.Buffer
	cmd.Stdout = &out
	cmd.Stderr = &out
	t0 := time.Now()
	_ = cmd.Run()
	res := SolverResult{Solver: sp.name, Secs: time.Since(t0).Seconds(), Output: out.String()}
	lines := strings.Split(strings.TrimSpace(out.String()), "\n")
	first := ""
	rest := ""
	for i, l := range lines {
		l = strings.TrimSpace(l)
		if l == "unsat" || l == "sat" || l == "unknown" || l == "timeout" {
			first = l
			rest = strings.Join(lines[i+1:], "\n")
			break
		}
	}
	switch first {
	case "unsat", "sat", "unknown", "timeout":
		res.Status = first
	default:
		if ctx.Err() != nil {
			res.Status = "timeout"
		} else {
			res.Status = "error"
		}
	}
	if res.Status == "sat" {
		res.Model = rest
	}
	return res
}

// Solve races/sequences the installed solvers. mode: "quick" tries z3-new first
// then the others on a non-answer; "confirm" additionally requires a second
// solver family to agree on unsat.
func Solve(query string, timeoutS int, confirm bool) SolverResult {
	if !confirm {
		r := runOne(solverSpecs[0], query, timeoutS)
		if r.Status == "unsat" || r.Status == "sat" {
			return r
		}
		// race the other two solvers
		ch := make(chan SolverResult, 2)
		for _, sp := range solverSpecs[1:] {
			sp := sp
			go func() { ch <- runOne(sp, query, timeoutS) }()
		}
		best := r
		for i := 0; i < 2; i++ {
			r2 := <-ch
			if r2.Status == "unsat" {
				return r2
			}
			if r2.Status == "sat" && best.Status != "sat" {
				best = r2
			}
		}
		return best
	}
	var first SolverResult
	for i, sp := range solverSpecs {
		r := runOne(sp, query, timeoutS)
		if r.Status == "unsat" {
			if confirm && i == 0 {
				// second family
				r2 := runOne(solverSpecs[2], query, timeoutS)
				if r2.Status == "sat" {
					r2.Output = "DISAGREEMENT with " + r.Solver + "\n" + r2.Output
					return r2
				}
				if r2.Status == "unsat" {
					r.Solver += "+" + r2.Solver
				}
			}
			return r
		}
		if r.Status == "sat" {
			return r
		}
		if i == 0 {
			first = r
		}
	}
	return first
}

// sortedKeys returns the sorted keys of a map[string]T.
func sortedKeys[T any](m map[string]T) []string {
	ks := make([]string, 0, len(m))
	for k := range m {
		ks = append(ks, k)
	}
	sort.Strings(ks)
	return ks
}
