package main

// Must-fail corpus: deliberate property-breaking edits applied in memory
// (packages overlay); every one must make at least one obligation of its
// property fail.

import (
	"encoding/json"
	"fmt"
	"os"
	"path/filepath"
	"strings"
)

type Mutant struct {
	Name   string   `json:"name"`
	File   string   `json:"file"` // relative to the repository root
	Old    string   `json:"old"`
	New    string   `json:"new"`
	Expect []string `json:"expect"` // substrings of obligation names expected to fail (informational)
	Note   string   `json:"note,omitempty"`
	Harmless bool   `json:"harmless,omitempty"` // a behaviour-preserving edit: must NOT raise a VIOLATION (false-alarm canary)
	UndecidedOK bool `json:"undecided_ok,omitempty"` // the edit restructures the function so that its contract no longer fits (new loop, vanished locals): "not decided" (exit 2) is the expected, honest answer; silence would be the miss
}

type MutantResult struct {
	Name   string
	Caught bool
	Failed []string
	Err    string
}

func loadMutants(verif, prop string) []Mutant {
	var ms []Mutant
	data, err := os.ReadFile(filepath.Join(verif, "mutants", prop+".json"))
	if err != nil {
		return nil
	}
	if err := json.Unmarshal(data, &ms); err != nil {
		fmt.Fprintln(os.Stderr, "bad mutants file:", err)
	}
	return ms
}

func runMutants(repo, verif, prop string, known *KnownFile, timeoutS int) []MutantResult {
	var out []MutantResult
	for _, m := range loadMutants(verif, prop) {
		r := MutantResult{Name: m.Name}
		path := filepath.Join(repo, m.File)
		src, err := os.ReadFile(path)
		if err != nil {
			r.Err = err.Error()
			out = append(out, r)
			continue
		}
		if strings.Count(string(src), m.Old) != 1 {
			// the code no longer has the mutated text (e.g. the tree under test
			// was changed): the mutant does not apply and is skipped
			r.Err = "does not apply"
			r.Caught = true
			out = append(out, r)
			continue
		}
		mut := strings.Replace(string(src), m.Old, m.New, 1)
		w, err := LoadWorld(repo, verif, pkgsFor(prop), map[string][]byte{path: []byte(mut)})
		if err != nil {
			r.Err = "mutant does not compile: " + err.Error()
			out = append(out, r)
			continue
		}
		res := runCheck(w, prop, timeoutS, false, known)
		for _, s := range res.Violations {
			r.Failed = append(r.Failed, s.Name)
		}
		for _, e := range res.ToolErrors {
			r.Failed = append(r.Failed, "UNDECIDED:"+e)
		}
		r.Caught = len(res.Violations) > 0
		if m.UndecidedOK && !r.Caught {
			for _, e := range res.ToolErrors {
				if strings.Contains(e, "not decided") {
					r.Caught = true
					r.Err = "undecided (expected: the contract does not fit the rewritten function)"
				}
			}
		}
		if m.Harmless {
			// canary: "caught" here means the check stayed quiet
			r.Caught = len(res.Violations) == 0
			if !r.Caught {
				r.Err = "FALSE ALARM on a harmless edit"
			} else {
				r.Err = "harmless edit, no alarm"
			}
		}
		out = append(out, r)
	}
	return out
}

func cmdSelftest(args []string) {
	repo, verif := "/repo", "/verif"
	props := args
	if len(props) == 0 {
		ents, _ := os.ReadDir(filepath.Join(verif, "mutants"))
		for _, e := range ents {
			if strings.HasSuffix(e.Name(), ".json") {
				props = append(props, strings.TrimSuffix(e.Name(), ".json"))
			}
		}
	}
	known := loadKnown(verif)
	bad := 0
	for _, p := range props {
		for _, r := range runMutants(repo, verif, p, known, 6) {
			st := "caught"
			if !r.Caught {
				st = "MISSED"
				bad++
			}
			fmt.Printf("%s %-40s %s %s %v\n", p, r.Name, st, r.Err, r.Failed)
		}
	}
	if bad > 0 {
		os.Exit(2)
	}
}
