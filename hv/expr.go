package main

// Evaluation of specification expressions (Go expression syntax + spec forms)
// to SMT terms in a given symbolic state.

import (
	"fmt"
	"go/ast"
	"go/constant"
	"go/parser"
	"go/token"

	"golang.org/x/tools/go/ssa"
	"go/types"
	"strconv"
	"strings"
)

type Env struct {
	x        *Exec
	st       *State
	fi       int
	vars     map[string]Value
	heap     map[string]Term
	epoch    int
	now      Term
	old      map[string]Term
	oldEpoch int
	oldNow   Term
	pkg      *types.Package
	useCells bool
	outer1   int             // > 0: frame outer1-1 is visible too (an inlined helper sees the enclosing function)
	loopHdr  *ssa.BasicBlock // set while a loop contract is evaluated (head / back edge)
	cf       *ContractFile
	where    string
	// state at entry of the function under verification (nil map + epoch 0) or,
	// at a call site, the pre-call state; used by entry(expr)
	entryHeap  map[string]Term
	entryEpoch int
	entryNow   Term
	hasEntry   bool
}

type specError struct{ msg string }

func (e specError) Error() string { return e.msg }

func (e *Env) fail(f string, a ...any) {
	panic(specError{fmt.Sprintf("%s: %s", e.where, fmt.Sprintf(f, a...))})
}

func (e *Env) child() *Env {
	n := *e
	n.vars = make(map[string]Value, len(e.vars)+2)
	for k, v := range e.vars {
		n.vars[k] = v
	}
	return &n
}

// rewriteImplies turns `A ==> B` into `implies(A, B)` at every nesting level.
func rewriteImplies(s string) string {
	// find top-level ==>
	depth := 0
	inStr := false
	for i := 0; i < len(s); i++ {
		c := s[i]
		if c == '"' {
			inStr = !inStr
		}
		if inStr {
			continue
		}
		switch c {
		case '(', '[', '{':
			depth++
		case ')', ']', '}':
			depth--
		case '=':
			if depth == 0 && strings.HasPrefix(s[i:], "==>") {
				return "implies(" + rewriteImplies(s[:i]) + ", " + rewriteImplies(s[i+3:]) + ")"
			}
		}
	}
	// no top-level implication: recurse into groups, splitting on top-level commas
	var sb strings.Builder
	i := 0
	for i < len(s) {
		c := s[i]
		if c == '"' {
			j := i + 1
			for j < len(s) && s[j] != '"' {
				j++
			}
			sb.WriteString(s[i : j+1])
			i = j + 1
			continue
		}
		if c == '(' || c == '[' || c == '{' {
			// find matching close
			d := 0
			j := i
			for ; j < len(s); j++ {
				if s[j] == '(' || s[j] == '[' || s[j] == '{' {
					d++
				} else if s[j] == ')' || s[j] == ']' || s[j] == '}' {
					d--
					if d == 0 {
						break
					}
				}
			}
			inner := s[i+1 : j]
			parts := splitTopComma(inner)
			for k := range parts {
				parts[k] = rewriteImplies(parts[k])
			}
			sb.WriteByte(c)
			sb.WriteString(strings.Join(parts, ", "))
			sb.WriteByte(s[j])
			i = j + 1
			continue
		}
		sb.WriteByte(c)
		i++
	}
	return sb.String()
}

var exprCache = map[string]ast.Expr{}

func parseSpec(text string) (ast.Expr, error) {
	if e, ok := exprCache[text]; ok {
		return e, nil
	}
	e, err := parser.ParseExpr(rewriteImplies(text))
	if err != nil {
		return nil, fmt.Errorf("cannot parse %q: %v", text, err)
	}
	exprCache[text] = e
	return e, nil
}

// EvalBool evaluates clause text to a Bool term.
func (e *Env) EvalBool(text string) Term {
	v := e.EvalText(text)
	if v.T.Sort != "Bool" {
		e.fail("expression %q is not boolean (sort %s)", text, v.T.Sort)
	}
	return v.T
}

func (e *Env) EvalText(text string) Value {
	x, err := parseSpec(text)
	if err != nil {
		e.fail("%v", err)
	}
	return e.eval(x)
}

func (e *Env) inOld() *Env {
	n := *e
	n.heap = e.old
	n.epoch = e.oldEpoch
	n.now = e.oldNow
	// locals keep their current value inside old(...): only the heap is the old one
	return &n
}

func (e *Env) lookupType(x ast.Expr) types.Type {
	switch t := x.(type) {
	case *ast.Ident:
		switch t.Name {
		case "any":
			return types.Universe.Lookup("any").Type()
		case "int", "int32", "int64", "uint64", "uint32", "bool", "string", "error":
			return types.Universe.Lookup(t.Name).Type()
		}
		if e.pkg != nil {
			if o := e.pkg.Scope().Lookup(t.Name); o != nil {
				if tn, ok := o.(*types.TypeName); ok {
					return tn.Type()
				}
			}
		}
	case *ast.SelectorExpr:
		if id, ok := t.X.(*ast.Ident); ok && e.pkg != nil {
			for _, imp := range e.pkg.Imports() {
				if imp.Name() == id.Name {
					if o := imp.Scope().Lookup(t.Sel.Name); o != nil {
						if tn, ok := o.(*types.TypeName); ok {
							return tn.Type()
						}
					}
				}
			}
		}
	case *ast.StarExpr:
		if bt := e.lookupType(t.X); bt != nil {
			return types.NewPointer(bt)
		}
	case *ast.ParenExpr:
		return e.lookupType(t.X)
	case *ast.ArrayType:
		if t.Len == nil {
			if et := e.lookupType(t.Elt); et != nil {
				return types.NewSlice(et)
			}
		}
	case *ast.IndexExpr:
		// generic instantiation: not supported in specs
	}
	return nil
}

func (e *Env) ident(name string) Value {
	if v, ok := e.vars[name]; ok {
		return v
	}
	switch name {
	case "true":
		return Value{T: TrueT}
	case "false":
		return Value{T: FalseT}
	case "nil":
		return Value{T: Term{"nil", "Nil"}}
	case "null":
		return Value{T: NullT}
	}
	x := e.x
	if v, ok := e.rangeKey(name); ok {
		return v
	}
	if name == "idx" {
		if v, ok := e.loopIndex(); ok {
			return v
		}
	}
	if e.useCells && e.fi >= 0 && e.fi < len(e.st.frames) {
		fr := e.st.frames[e.fi]
		for i := len(fr.order) - 1; i >= 0; i-- {
			a := fr.order[i]
			if a.Comment == name {
				c := fr.allocs[a]
				if v, ok := e.st.cells[c]; ok {
					return v
				}
			}
		}
		// a local that lives on the heap: its current struct value
		if hl, ok := fr.heapLocals[name]; ok {
			if pt, ok := hl.Typ.Underlying().(*types.Pointer); ok {
				v, ft := x.loadField(e.st, e.heap, e.epoch, hl.T, pt.Elem(), nil)
				return Value{T: v, Typ: ft}
			}
		}
		// free variables of a closure (a captured parameter of the enclosing
		// function also answers to the name that function's contract header
		// gives the parameter: renaming it in the source keeps the clause bound)
		for i, fv := range fr.fn.FreeVars {
			alias := x.freeVarAlias(fr.fn, fv)
			if (fv.Name() == name || (alias != "" && alias == name)) && i < len(fr.bind) {
				b := fr.bind[i]
				if b.Loc != nil {
					return x.loadLoc(e.st, b.Loc, nil, "")
				}
				return b
			}
		}
	}
	if e.fi >= 0 && e.fi < len(e.st.frames) {
		fr := e.st.frames[e.fi]
		if v, ok := fr.params[name]; ok {
			return v
		}
		if !e.useCells {
			// inside old()/entry() in a closure: a captured variable of the
			// enclosing function is read through its current binding (captured
			// parameters such as the receiver are never reassigned)
			for i, fv := range fr.fn.FreeVars {
				alias := x.freeVarAlias(fr.fn, fv)
				if (fv.Name() == name || (alias != "" && alias == name)) && i < len(fr.bind) {
					b := fr.bind[i]
					if b.Loc != nil {
						return x.loadLoc(e.st, b.Loc, nil, "")
					}
					return b
				}
			}
		}
	}
	if e.st.ghostLoc != nil {
		if v, ok := e.st.ghostLoc[name]; ok {
			return v
		}
	}
	if gv, ok := x.ghostVars[name]; ok {
		var gt types.Type
		if gv.GoType != "" {
			if te, err := parser.ParseExpr(gv.GoType); err == nil {
				n := *e
				if p := x.w.typesPkg(gv.Pkg); p != nil {
					n.pkg = p
				}
				gt = n.lookupType(te)
			}
			if gt == nil {
				e.fail("ghost var %s: unknown Go type %q", name, gv.GoType)
			}
		}
		return Value{T: x.heapGetIn(e.heap, e.epoch, "G$"+name, gv.Sort), Typ: gt}
	}
	if e.pkg != nil {
		if o := e.pkg.Scope().Lookup(name); o != nil {
			if c, ok := o.(*types.Const); ok {
				return e.constVal(c.Val(), c.Type())
			}
		}
	}
	if e.outer1 > 0 && e.outer1-1 < len(e.st.frames) && e.outer1-1 != e.fi {
		n := *e
		n.fi, n.outer1, n.loopHdr = e.outer1-1, 0, nil
		return n.ident(name)
	}
	e.fail("unknown identifier %q", name)
	return Value{}
}

// rangeKey: in a loop contract of `for k := range slice`, k means the index of
// the iteration about to start (hidden index + 1), as it does in an invariant
// written for `for k := 0; k < n; k++`. The variable itself exists only
// inside the body, one per iteration.
func (e *Env) rangeKey(name string) (Value, bool) {
	if e.loopHdr == nil || e.fi < 0 || e.fi >= len(e.st.frames) {
		return Value{}, false
	}
	fr := e.st.frames[e.fi]
	for _, b := range e.loopHdr.Succs {
		if len(b.Preds) != 1 {
			continue
		}
		for _, in := range b.Instrs {
			st, ok := in.(*ssa.Store)
			if !ok {
				continue
			}
			al, ok := st.Addr.(*ssa.Alloc)
			if !ok || al.Comment != name {
				continue
			}
			ld, ok := st.Val.(*ssa.UnOp)
			if !ok || ld.Op != token.MUL {
				continue
			}
			ri, ok := ld.X.(*ssa.Alloc)
			if !ok || ri.Comment != "rangeindex" {
				continue
			}
			if c, ok := fr.allocs[ri]; ok {
				if v, ok := e.st.cells[c]; ok {
					return Value{T: Add(v.T, IntLit(1)), Typ: types.Typ[types.Int]}, true
				}
			}
		}
	}
	return Value{}, false
}

// loopIndex gives the reserved name `idx` its meaning: the index of the
// iteration that is about to start (at a loop head / back edge, in a loop
// contract) or that is running (in a ghost statement inside the body), for
// `for i := a; ..; i++` (the variable the latch increments) as well as for
// `for k, v := range slice` (the hidden range index). Contracts written with
// idx do not depend on which of the two forms the source uses.
func (e *Env) loopIndex() (Value, bool) {
	if e.fi < 0 || e.fi >= len(e.st.frames) {
		return Value{}, false
	}
	fr := e.st.frames[e.fi]
	atHead := e.loopHdr != nil
	var li *loopInfo
	if atHead {
		li = e.x.info(fr.fn).loops[e.loopHdr]
	} else {
		// innermost loop that contains the block this frame is executing
		var cur *ssa.BasicBlock
		prefix := fr.fn.Name() + "."
		for i := len(e.st.trace) - 1; i >= 0; i-- {
			if strings.HasPrefix(e.st.trace[i], prefix) {
				n := 0
				if _, err := fmt.Sscanf(e.st.trace[i][len(prefix):], "%d", &n); err == nil && n < len(fr.fn.Blocks) {
					cur = fr.fn.Blocks[n]
				}
				break
			}
		}
		if cur == nil {
			return Value{}, false
		}
		for _, l := range e.x.info(fr.fn).loops {
			if l.blocks[cur] && (li == nil || len(l.blocks) < len(li.blocks)) {
				li = l
			}
		}
	}
	if li == nil {
		return Value{}, false
	}
	cellOf := func(a *ssa.Alloc) (Value, bool) {
		if c, ok := fr.allocs[a]; ok {
			if v, ok := e.st.cells[c]; ok {
				return v, true
			}
		}
		return Value{}, false
	}
	// range over a slice/array/string: the header loads, increments and stores
	// the hidden index
	for _, in := range li.header.Instrs {
		st, ok := in.(*ssa.Store)
		if !ok {
			continue
		}
		if a, ok := st.Addr.(*ssa.Alloc); ok && a.Comment == "rangeindex" {
			v, ok := cellOf(a)
			if !ok {
				return Value{}, false
			}
			if atHead {
				return Value{T: Add(v.T, IntLit(1)), Typ: types.Typ[types.Int]}, true
			}
			return Value{T: v.T, Typ: types.Typ[types.Int]}, true
		}
	}
	// three-clause loop: the variable a latch block increments by one
	for _, p := range li.header.Preds {
		if !li.blocks[p] {
			continue
		}
		for _, in := range p.Instrs {
			st, ok := in.(*ssa.Store)
			if !ok {
				continue
			}
			a, ok := st.Addr.(*ssa.Alloc)
			if !ok {
				continue
			}
			bo, ok := st.Val.(*ssa.BinOp)
			if !ok || bo.Op != token.ADD {
				continue
			}
			ld, ok := bo.X.(*ssa.UnOp)
			if !ok || ld.Op != token.MUL || ld.X != ssa.Value(a) {
				continue
			}
			if c, ok := bo.Y.(*ssa.Const); !ok || c.Value == nil || c.Value.ExactString() != "1" {
				continue
			}
			if v, ok := cellOf(a); ok {
				return Value{T: v.T, Typ: v.Typ}, true
			}
		}
	}
	return Value{}, false
}

func (e *Env) constVal(v constant.Value, t types.Type) Value {
	switch v.Kind() {
	case constant.Int:
		return Value{T: IntLitS(v.ExactString()), Typ: t}
	case constant.Bool:
		return Value{T: BoolLit(constant.BoolVal(v)), Typ: t}
	case constant.String:
		return Value{T: e.x.strLit(constant.StringVal(v)), Typ: t}
	}
	e.fail("unsupported constant kind")
	return Value{}
}

func (e *Env) coerceNil(a, b Value) (Value, Value) {
	fix := func(n Value, other Value) Value {
		if n.T.Sort != "Nil" {
			return n
		}
		switch other.T.Sort {
		case "Ref":
			return Value{T: NullT, Typ: other.Typ}
		case "Slice":
			return Value{T: e.x.nilSlice(), Typ: other.Typ}
		case "Iface":
			return Value{T: e.x.nilIface(), Typ: other.Typ}
		}
		e.fail("cannot type nil against sort %s", other.T.Sort)
		return n
	}
	return fix(a, b), fix(b, a)
}

func (e *Env) eqTerms(a, b Value) Term {
	a, b = e.coerceNil(a, b)
	if a.T.Sort == "Slice" && b.T.S == e.x.nilSlice().S {
		return Eq(sArr(a.T), NullT)
	}
	if b.T.Sort == "Slice" && a.T.S == e.x.nilSlice().S {
		return Eq(sArr(b.T), NullT)
	}
	if a.T.Sort == "Iface" && b.T.S == e.x.nilIface().S {
		return Eq(iTag(a.T), IntLit(0))
	}
	if b.T.Sort == "Iface" && a.T.S == e.x.nilIface().S {
		return Eq(iTag(b.T), IntLit(0))
	}
	if a.T.Sort != b.T.Sort {
		// allow comparing an interface with a concrete value by boxing
		if a.T.Sort == "Iface" && b.Typ != nil {
			return Eq(a.T, e.x.makeIface(b.T, b.Typ))
		}
		if b.T.Sort == "Iface" && a.Typ != nil {
			return Eq(e.x.makeIface(a.T, a.Typ), b.T)
		}
		e.fail("sort mismatch in ==: %s vs %s (%s / %s)", a.T.Sort, b.T.Sort, a.T.S, b.T.S)
	}
	return Eq(a.T, b.T)
}

func (e *Env) eval(n ast.Expr) Value {
	x := e.x
	switch t := n.(type) {
	case *ast.ParenExpr:
		return e.eval(t.X)
	case *ast.Ident:
		return e.ident(t.Name)
	case *ast.BasicLit:
		switch t.Kind {
		case token.INT:
			v, err := strconv.ParseInt(t.Value, 0, 64)
			if err != nil {
				e.fail("bad int literal %s", t.Value)
			}
			return Value{T: IntLit(v), Typ: types.Typ[types.Int]}
		case token.STRING:
			s, _ := strconv.Unquote(t.Value)
			return Value{T: x.strLit(s), Typ: types.Typ[types.String]}
		}
		e.fail("unsupported literal %s", t.Value)
	case *ast.UnaryExpr:
		v := e.eval(t.X)
		switch t.Op {
		case token.NOT:
			return Value{T: Not(v.T)}
		case token.SUB:
			return Value{T: App("-", "Int", v.T), Typ: v.Typ}
		}
		e.fail("unsupported unary op %s", t.Op)
	case *ast.BinaryExpr:
		a := e.eval(t.X)
		b := e.eval(t.Y)
		switch t.Op {
		case token.LAND:
			return Value{T: And(a.T, b.T)}
		case token.LOR:
			return Value{T: Or(a.T, b.T)}
		case token.EQL:
			return Value{T: e.eqTerms(a, b)}
		case token.NEQ:
			return Value{T: Not(e.eqTerms(a, b))}
		case token.LSS:
			return Value{T: Lt(a.T, b.T)}
		case token.LEQ:
			return Value{T: Le(a.T, b.T)}
		case token.GTR:
			return Value{T: Lt(b.T, a.T)}
		case token.GEQ:
			return Value{T: Le(b.T, a.T)}
		case token.ADD:
			if a.T.Sort == "Str" {
				return Value{T: App("strcat", "Str", a.T, b.T), Typ: a.Typ}
			}
			return Value{T: Add(a.T, b.T), Typ: a.Typ}
		case token.SUB:
			return Value{T: Sub(a.T, b.T), Typ: a.Typ}
		case token.MUL:
			return Value{T: App("*", "Int", a.T, b.T), Typ: a.Typ}
		case token.REM:
			return Value{T: x.gomod(a.T, b.T), Typ: a.Typ}
		}
		e.fail("unsupported binary op %s", t.Op)
	case *ast.StarExpr:
		v := e.eval(t.X)
		if v.Loc != nil {
			return x.loadLoc(e.st, v.Loc, e.heap, "")
		}
		e.fail("cannot dereference non-location in spec")
	case *ast.SelectorExpr:
		// package-qualified constant?
		if id, ok := t.X.(*ast.Ident); ok && e.pkg != nil {
			if _, bound := e.vars[id.Name]; !bound {
				for _, imp := range e.pkg.Imports() {
					if imp.Name() == id.Name {
						if o := imp.Scope().Lookup(t.Sel.Name); o != nil {
							if c, ok := o.(*types.Const); ok {
								return e.constVal(c.Val(), c.Type())
							}
						}
					}
				}
			}
		}
		base := e.eval(t.X)
		return e.selectField(base, t.Sel.Name)
	case *ast.IndexExpr:
		base := e.eval(t.X)
		idx := e.eval(t.Index)
		switch {
		case base.T.Sort == "Slice":
			et := elemTypeOf(base.Typ)
			if et == nil {
				e.fail("index of slice with unknown element type")
			}
			return Value{T: x.loadElem(e.st, e.heap, e.epoch, et, sArr(base.T), sIdx(sOff(base.T), idx.T)), Typ: et}
		case strings.HasPrefix(base.T.Sort, "(Array"):
			return Value{T: Select(base.T, idx.T)}
		case base.T.Sort == "Ref":
			if mt, ok := underMap(base.Typ); ok {
				return Value{T: x.mapGet(e.st, e.heap, e.epoch, base.T, mt, idx.T), Typ: mt.Elem()}
			}
		}
		e.fail("unsupported index base (sort %s)", base.T.Sort)
	case *ast.TypeAssertExpr:
		v := e.eval(t.X)
		ty := e.lookupType(t.Type)
		if ty == nil {
			e.fail("unknown type in assertion")
		}
		return Value{T: x.unbox(v.T, ty), Typ: ty}
	case *ast.CompositeLit:
		ty := e.lookupType(t.Type)
		if ty == nil {
			e.fail("unknown composite literal type")
		}
		s, ok := structOf(ty)
		if !ok {
			e.fail("composite literal of non-struct")
		}
		fs := make([]Term, s.NumFields())
		for i := range fs {
			fs[i] = x.zero(s.Field(i).Type())
		}
		for _, el := range t.Elts {
			kv, ok := el.(*ast.KeyValueExpr)
			if !ok {
				e.fail("composite literal needs field names")
			}
			name := kv.Key.(*ast.Ident).Name
			found := false
			for i := 0; i < s.NumFields(); i++ {
				if s.Field(i).Name() == name {
					v := e.eval(kv.Value)
					ft := s.Field(i).Type()
					if v.T.Sort == "Nil" {
						v.T = x.zero(ft)
					}
					if x.sortOf(ft) == "Iface" && v.T.Sort != "Iface" && v.Typ != nil {
						v.T = x.makeIface(v.T, v.Typ)
					}
					fs[i] = v.T
					found = true
				}
			}
			if !found {
				e.fail("no field %s", name)
			}
		}
		return Value{T: x.mkStruct(ty, fs), Typ: ty}
	case *ast.CallExpr:
		return e.call(t)
	}
	e.fail("unsupported spec expression %T", n)
	return Value{}
}

func elemTypeOf(t types.Type) types.Type {
	if t == nil {
		return nil
	}
	switch u := t.Underlying().(type) {
	case *types.Slice:
		return u.Elem()
	case *types.Array:
		return u.Elem()
	case *types.Pointer:
		if a, ok := u.Elem().Underlying().(*types.Array); ok {
			return a.Elem()
		}
	}
	return nil
}

func underMap(t types.Type) (*types.Map, bool) {
	if t == nil {
		return nil, false
	}
	m, ok := t.Underlying().(*types.Map)
	return m, ok
}

func (e *Env) selectField(base Value, name string) Value {
	x := e.x
	if base.T.Sort == "Event" {
		// log[k].Deliver_msg : field msg of constructor Deliver
		if j := strings.Index(name, "_"); j > 0 {
			if ev, ok := x.events[name[:j]]; ok {
				for i, f := range ev.Fields {
					if f == name[j+1:] {
						var gt types.Type
						if ev.GoTypes[i] != "" {
							if te, err := parser.ParseExpr(ev.GoTypes[i]); err == nil {
								n := *e
								if p := x.w.typesPkg(ev.Pkg); p != nil {
									n.pkg = p
								}
								gt = n.lookupType(te)
							}
						}
						return Value{T: App(ev.Name+"."+f, ev.Sorts[i], base.T), Typ: gt}
					}
				}
			}
		}
		e.fail("no event field %s", name)
	}
	if base.Typ == nil {
		// spec-only datatypes (Slice): allow .arr .off .len .cap
		if base.T.Sort == "Slice" {
			switch name {
			case "arr":
				return Value{T: sArr(base.T)}
			case "off":
				return Value{T: sOff(base.T)}
			}
		}
		e.fail("selector .%s on value without Go type (%s)", name, base.T.S)
	}
	t := base.Typ
	if base.T.Sort == "Slice" && (name == "arr" || name == "off") {
		if name == "arr" {
			return Value{T: sArr(base.T)}
		}
		return Value{T: sOff(base.T)}
	}
	if p, ok := t.Underlying().(*types.Pointer); ok {
		st, ok := structOf(p.Elem())
		if !ok {
			e.fail("selector on pointer to non-struct")
		}
		path := findField(st, name)
		if path == nil {
			e.fail("no field %s in %s", name, p.Elem())
		}
		v, ft := x.loadField(e.st, e.heap, e.epoch, base.T, p.Elem(), path)
		return Value{T: v, Typ: ft}
	}
	if st, ok := structOf(t); ok {
		path := findField(st, name)
		if path == nil {
			e.fail("no field %s in %s", name, t)
		}
		v, ft := x.getPath(base.T, t, path)
		return Value{T: v, Typ: ft}
	}
	e.fail("selector .%s on %s", name, t)
	return Value{}
}

// findField finds a (possibly promoted through embedding) field path.
func findField(s *types.Struct, name string) []int {
	for i := 0; i < s.NumFields(); i++ {
		if s.Field(i).Name() == name {
			return []int{i}
		}
	}
	for i := 0; i < s.NumFields(); i++ {
		f := s.Field(i)
		if f.Embedded() {
			if es, ok := structOf(f.Type()); ok {
				if p := findField(es, name); p != nil {
					return append([]int{i}, p...)
				}
			}
		}
	}
	return nil
}

func (e *Env) call(c *ast.CallExpr) Value {
	x := e.x
	// conversions / type-named calls
	if ty := e.lookupType(c.Fun); ty != nil && len(c.Args) == 1 {
		v := e.eval(c.Args[0])
		if x.sortOf(ty) == "Iface" {
			if v.T.Sort == "Iface" {
				return Value{T: v.T, Typ: ty}
			}
			if v.T.Sort == "Nil" {
				return Value{T: x.nilIface(), Typ: ty}
			}
			if v.Typ == nil {
				e.fail("cannot box value without Go type")
			}
			return Value{T: x.makeIface(v.T, v.Typ), Typ: ty}
		}
		return Value{T: v.T, Typ: ty}
	}
	name := ""
	if id, ok := c.Fun.(*ast.Ident); ok {
		name = id.Name
	} else {
		e.fail("unsupported call target in spec")
	}
	args := c.Args
	switch name {
	case "old":
		return e.inOld().eval(args[0])
	case "implies":
		a, b := e.eval(args[0]), e.eval(args[1])
		return Value{T: Implies(a.T, b.T)}
	case "ite":
		c0, a, b := e.eval(args[0]), e.eval(args[1]), e.eval(args[2])
		a, b = e.coerceNil(a, b)
		return Value{T: Ite(c0.T, a.T, b.T), Typ: a.Typ}
	case "forall", "exists", "forallS", "existsS":
		sort := "Int"
		if strings.HasSuffix(name, "S") {
			lit, ok := args[0].(*ast.BasicLit)
			if !ok {
				e.fail("forallS needs a sort string")
			}
			sort, _ = strconv.Unquote(lit.Value)
			args = args[1:]
			name = strings.TrimSuffix(name, "S")
		}
		// "Ref as *PID": bound variables carry a Go type (field selection)
		var boundType types.Type
		if j := strings.Index(sort, " as "); j >= 0 {
			if te, err := parser.ParseExpr(strings.TrimSpace(sort[j+4:])); err == nil {
				boundType = e.lookupType(te)
			}
			if boundType == nil {
				e.fail("quantifier: unknown Go type in %q", sort)
			}
			sort = strings.TrimSpace(sort[:j])
		}
		// leading identifiers are the bound variables; then the body; then patterns
		nv := 0
		for nv < len(args)-1 {
			if _, ok := args[nv].(*ast.Ident); !ok {
				break
			}
			nv++
		}
		if nv == 0 {
			e.fail("quantifier needs a variable name")
		}
		n := e.child()
		var binders []string
		for _, a := range args[:nv] {
			id := a.(*ast.Ident)
			bv := Term{"?" + id.Name, sort}
			var vt types.Type
			if sort == "Int" {
				vt = types.Typ[types.Int]
			}
			if boundType != nil {
				vt = boundType
			}
			n.vars[id.Name] = Value{T: bv, Typ: vt}
			binders = append(binders, fmt.Sprintf("(%s %s)", bv.S, sort))
		}
		body := n.eval(args[nv])
		pats := ""
		for _, p := range args[nv+1:] {
			pv := n.eval(p)
			pats += " :pattern (" + pv.T.S + ")"
		}
		bs := body.T.S
		if pats != "" {
			bs = "(! " + bs + pats + ")"
		}
		return Value{T: Term{fmt.Sprintf("(%s (%s) %s)", name, strings.Join(binders, " "), bs), "Bool"}}
	case "len":
		v := e.eval(args[0])
		switch v.T.Sort {
		case "Slice":
			return Value{T: sLen(v.T), Typ: types.Typ[types.Int]}
		case "Str":
			return Value{T: App("strlen", "Int", v.T), Typ: types.Typ[types.Int]}
		case "Ref":
			if mt, ok := underMap(v.Typ); ok {
				return Value{T: x.mapLen(e.st, e.heap, e.epoch, v.T, mt), Typ: types.Typ[types.Int]}
			}
		}
		e.fail("len of sort %s", v.T.Sort)
	case "cap":
		v := e.eval(args[0])
		return Value{T: sCap(v.T), Typ: types.Typ[types.Int]}
	case "has":
		m, k := e.eval(args[0]), e.eval(args[1])
		mt, ok := underMap(m.Typ)
		if !ok {
			e.fail("has() needs a map")
		}
		return Value{T: x.mapHas(e.st, e.heap, e.epoch, m.T, mt, k.T)}
	case "istype":
		v := e.eval(args[0])
		ty := e.lookupType(args[1])
		if ty == nil {
			e.fail("istype: unknown type")
		}
		return Value{T: Eq(iTag(v.T), x.tagOf(ty))}
	case "tagof":
		v := e.eval(args[0])
		return Value{T: iTag(v.T)}
	case "isev":
		// isev(log[k], Deliver): the event was built by that constructor
		v := e.eval(args[0])
		id, ok := args[1].(*ast.Ident)
		if !ok || x.events[id.Name] == nil {
			e.fail("isev needs an event name")
		}
		return Value{T: Term{"((_ is " + id.Name + ") " + v.T.S + ")", "Bool"}}
	case "isnil":
		v := e.eval(args[0])
		switch v.T.Sort {
		case "Ref":
			return Value{T: Eq(v.T, NullT)}
		case "Slice":
			return Value{T: Eq(sArr(v.T), NullT)}
		case "Iface":
			return Value{T: Eq(iTag(v.T), IntLit(0))}
		}
		e.fail("isnil of sort %s", v.T.Sort)
	case "fresh":
		v := e.eval(args[0])
		r := v.T
		if r.Sort == "Slice" {
			r = sArr(r)
		}
		return Value{T: Le(e.oldNow, App("atime", "Int", r))}
	case "store":
		a, i, v := e.eval(args[0]), e.eval(args[1]), e.eval(args[2])
		if v.T.Sort == "Nil" {
			v.T = NullT
		}
		return Value{T: Store(a.T, i.T, v.T)}
	case "aload":
		// aload(obj, "field"): the value of a sync/atomic.Uint32 (etc.) field
		v := e.eval(args[0])
		lit, ok := args[1].(*ast.BasicLit)
		if !ok || v.Typ == nil {
			e.fail("aload(obj, \"field\")")
		}
		fname, _ := strconv.Unquote(lit.Value)
		pt, ok := v.Typ.Underlying().(*types.Pointer)
		if !ok {
			e.fail("aload: not a pointer")
		}
		st, ok := structOf(pt.Elem())
		if !ok {
			e.fail("aload: not a struct pointer")
		}
		path := findField(st, fname)
		if path == nil {
			e.fail("aload: no field %s", fname)
		}
		name, _ := x.fieldHeapName(pt.Elem(), path)
		arr := x.heapGetIn(e.heap, e.epoch, name+"$v", ArraySort("Ref", "Int"))
		return Value{T: Select(arr, v.T), Typ: types.Typ[types.Uint32]}
	case "nilof":
		// nilof("*Member"): the typed nil of a pointer/slice/interface type
		lit, ok := args[0].(*ast.BasicLit)
		if !ok {
			e.fail("nilof needs a type string")
		}
		ts, _ := strconv.Unquote(lit.Value)
		te, err := parser.ParseExpr(ts)
		if err != nil {
			e.fail("nilof: %v", err)
		}
		ty := e.lookupType(te)
		if ty == nil {
			e.fail("nilof: unknown type %s", ts)
		}
		return Value{T: x.zero(ty), Typ: ty}
	case "arbitrary":
		// arbitrary("(Array Ref Int)"): an unconstrained value of that sort
		lit, ok := args[0].(*ast.BasicLit)
		if !ok {
			e.fail("arbitrary needs a sort string")
		}
		so, _ := strconv.Unquote(lit.Value)
		return Value{T: x.decls.Fresh("arbitrary", so)}
	case "typed":
		// typed(v, "*actor.PID"): the same term, read as a value of that Go type
		// (elements of ghost arrays have no Go type of their own)
		v := e.eval(args[0])
		lit, ok := args[1].(*ast.BasicLit)
		if !ok {
			e.fail("typed needs a type string")
		}
		ts, _ := strconv.Unquote(lit.Value)
		te, err := parser.ParseExpr(ts)
		if err != nil {
			e.fail("typed: bad type %q", ts)
		}
		ty := e.lookupType(te)
		if ty == nil {
			e.fail("typed: unknown Go type %q", ts)
		}
		return Value{T: v.T, Typ: ty}
	case "ctxcancel":
		v := e.eval(args[0])
		x.decls.Fun("ctxcancel", []string{"Iface"}, "Ref")
		return Value{T: App("ctxcancel", "Ref", v.T)}
	case "ctxdone":
		v := e.eval(args[0])
		x.decls.Fun("ctxdone", []string{"Iface"}, "Ref")
		return Value{T: App("ctxdone", "Ref", v.T)}
	case "sidx":
		a, b := e.eval(args[0]), e.eval(args[1])
		return Value{T: sIdx(a.T, b.T), Typ: types.Typ[types.Int]}
	case "gomod":
		a, b := e.eval(args[0]), e.eval(args[1])
		return Value{T: x.gomod(a.T, b.T), Typ: a.Typ}
	case "min":
		a, b := e.eval(args[0]), e.eval(args[1])
		return Value{T: Ite(Le(a.T, b.T), a.T, b.T), Typ: a.Typ}
	case "entry":
		if id, ok := args[0].(*ast.Ident); ok && e.fi >= 0 {
			if v, ok := e.st.frames[e.fi].params[id.Name]; ok {
				return v
			}
		}
		// entry(expr): expr evaluated in the state at function entry
		n := *e
		if e.hasEntry {
			n.heap, n.epoch, n.now = e.entryHeap, e.entryEpoch, e.entryNow
		} else {
			n.heap, n.epoch, n.now = map[string]Term{}, 0, e.x.decls.Const("now@entry", "Int")
		}
		n.useCells = false
		return n.eval(args[0])
	case "boundmethod":
		// boundmethod(recv, "Receive"): the function value recv.Receive
		v := e.eval(args[0])
		lit := args[1].(*ast.BasicLit)
		m, _ := strconv.Unquote(lit.Value)
		return Value{T: x.boundMethodTerm(v.T, m)}
	case "elems":
		// elems(s): the backing array content of slice s as an (Array Int Elem)
		v := e.eval(args[0])
		et := elemTypeOf(v.Typ)
		return Value{T: x.elemArr(e.st, e.heap, e.epoch, x.sortOf(et), sArr(v.T))}
	}
	// predicate macro
	if p := x.findPred(name); p != nil {
		if len(args) != len(p.Params) {
			e.fail("pred %s: want %d args", name, len(p.Params))
		}
		n := e.child()
		// predicates see only their parameters (+ ghost globals)
		n.vars = map[string]Value{}
		n.useCells = false
		for i, a := range args {
			n.vars[p.Params[i]] = e.eval(a)
		}
		if tp := x.w.typesPkg(p.Pkg); tp != nil {
			n.pkg = tp
		}
		return n.EvalText(p.Body)
	}
	if gf, ok := x.ghostFuns[name]; ok {
		var ts []Term
		for _, a := range args {
			v := e.eval(a)
			ts = append(ts, v.T)
		}
		var gt types.Type
		if gf.GoType != "" {
			if te, err := parser.ParseExpr(gf.GoType); err == nil {
				n := *e
				if p := x.w.typesPkg(gf.Pkg); p != nil {
					n.pkg = p
				}
				gt = n.lookupType(te)
			}
			if gt == nil {
				e.fail("ghost func %s: unknown Go type %q", name, gf.GoType)
			}
		}
		return Value{T: App(name, gf.Ret, ts...), Typ: gt}
	}
	if ev, ok := x.events[name]; ok {
		var ts []Term
		for i, a := range args {
			v := e.eval(a)
			if v.T.Sort == "Nil" {
				switch ev.Sorts[i] {
				case "Ref":
					v.T = NullT
				case "Iface":
					v.T = x.nilIface()
				}
			}
			if ev.Sorts[i] == "Iface" && v.T.Sort != "Iface" && v.Typ != nil {
				v.T = x.makeIface(v.T, v.Typ)
			}
			if v.T.Sort != ev.Sorts[i] {
				e.fail("event %s arg %d: sort %s, want %s", name, i, v.T.Sort, ev.Sorts[i])
			}
			ts = append(ts, v.T)
		}
		return Value{T: App(name, "Event", ts...)}
	}
	e.fail("unknown spec function %q", name)
	return Value{}
}

// freeVarAlias: a captured parameter of the enclosing function also answers to
// the name that function's contract header gives the parameter.
func (x *Exec) freeVarAlias(fn *ssa.Function, fv *ssa.FreeVar) string {
	par := fn.Parent()
	if par == nil {
		return ""
	}
	pc := x.contractFor(par)
	if pc == nil {
		return ""
	}
	off := 0
	if par.Signature.Recv() != nil {
		off = 1
	}
	if len(pc.ParamNames) != len(par.Params)-off {
		return ""
	}
	for k, pp := range par.Params {
		if pp.Name() == fv.Name() && k-off >= 0 {
			return pc.ParamNames[k-off]
		}
	}
	return ""
}
