package main

// Global-invariant mode (inbox state word): filled in later.

import "golang.org/x/tools/go/ssa"

type GInv struct{}

func (x *Exec) ginvStep(st *State, fi int, site ssa.Instruction, anchor string, body func() Value, k func(*State, Value)) {
	k(st, body())
}

func (x *Exec) quickSat(st *State) bool { return true }
