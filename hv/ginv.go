package main

// Global-invariant ("protocol") mode: see ProtocolSpec.

import (
	"fmt"
	"go/types"
	"strings"

	"golang.org/x/tools/go/ssa"
)

type GInv struct {
	spec *ProtocolSpec
	obj  Value // the shared structure (receiver of the method under verification)
}

// protocolFor finds the protocol of fn's receiver type, if any.
func (x *Exec) protocolFor(c *Contract, fn *ssa.Function, args []Value) *GInv {
	if fn.Signature.Recv() == nil || len(args) == 0 {
		return nil
	}
	pt, ok := fn.Signature.Recv().Type().Underlying().(*types.Pointer)
	if !ok {
		return nil
	}
	tn := baseTypeName(pt.Elem())
	for _, cf := range x.w.contracts {
		for _, ps := range cf.Protocols {
			if ps.Struct == tn && ps.Pkg == c.Pkg {
				return &GInv{spec: ps, obj: args[0]}
			}
		}
	}
	return nil
}

func (x *Exec) isStep(anchor string) bool {
	if x.ginv == nil {
		return false
	}
	base := anchor
	if i := strings.LastIndex(anchor, "#"); i >= 0 {
		base = anchor[:i]
	}
	for _, s := range x.ginv.spec.Steps {
		if strings.TrimSpace(s) == base {
			return true
		}
	}
	return false
}

func (x *Exec) ginvEnv(st *State, fi int) *Env {
	env := x.envFor(st, fi, false)
	env.fi = -1
	env.vars = map[string]Value{x.ginv.spec.Recv: x.ginv.obj}
	env.pkg = x.w.typesPkg(x.ginv.spec.Pkg)
	return env
}

// ginvBefore: other threads may have run: forget the shared state, keep what
// the invariant and this thread's stable knowledge say about it.
func (x *Exec) ginvBefore(st *State, fi int, anchor string) {
	g := x.ginv
	for _, item := range g.spec.Shared {
		item = strings.TrimSpace(item)
		if gv, ok := x.ghostVars[item]; ok {
			x.recHeap("G$" + item)
			st.heap["G$"+item] = x.decls.Fresh("shared.G$"+item, gv.Sort)
			if st.lockHavoc == nil {
				st.lockHavoc = map[string][]Term{}
			}
			if _, ok := st.lockHavoc["G$"+item]; !ok {
				st.lockHavoc["G$"+item] = []Term{}
			}
			continue
		}
		env := x.ginvEnv(st, fi)
		mods := map[string][]Term{}
		x.resolveModifies(st, env, item, mods, "shared state of "+g.spec.Struct)
		for _, name := range sortedKeys(mods) {
			sortS := x.heapSorts[name]
			x.recHeap(name)
			cur := x.heapGet(st, name, sortS)
			for _, o := range mods[name] {
				fv := x.decls.Fresh("shared."+name, arrayElemSort(sortS))
				cur = Store(cur, o, fv)
				if st.lockHavoc == nil {
					st.lockHavoc = map[string][]Term{}
				}
				st.lockHavoc[name] = append(st.lockHavoc[name], o)
			}
			x.heapSet(st, name, cur)
		}
	}
	x.ginvAssume(st, fi)
	if x.muted == 0 && fi == 0 {
		x.reach(st, "before step "+anchor)
	}
}

func (x *Exec) ginvAssume(st *State, fi int) {
	g := x.ginv
	for _, cl := range append(append([]*Clause(nil), g.spec.Inv...), g.spec.Stable...) {
		env := x.ginvEnv(st, fi)
		if t, ok := x.evalClause(st, env, cl); ok {
			st.assume(t)
		}
	}
}

// ginvAfter: the step (with its ghost updates) must re-establish the invariant.
func (x *Exec) ginvAfter(st *State, fi int, anchor string, site ssa.Instruction) {
	g := x.ginv
	for _, cl := range g.spec.Inv {
		env := x.ginvEnv(st, fi)
		if t, ok := x.evalClause(st, env, cl); ok {
			x.oblige(st, "ginv", cl.Label, anchor, t, site.Pos())
		}
	}
	// the thread's own stable knowledge must hold of the state it just produced
	for _, cl := range g.spec.Stable {
		env := x.ginvEnv(st, fi)
		if t, ok := x.evalClause(st, env, cl); ok {
			x.oblige(st, "stable", cl.Label, anchor, t, site.Pos())
		}
	}
}

func (x *Exec) ginvStep(st *State, fi int, site ssa.Instruction, anchor string, body func() Value, k func(*State, Value)) {
	k(st, body())
}

// quickSat: is the path condition still satisfiable? Used only by functions
// whose contract says `prune` (large type switches restricted by a
// precondition): branches the solver refutes within a second are not explored.
func (x *Exec) quickSat(st *State) bool {
	ob := &Obligation{PC: st.pc, Expect: "sat"}
	q := x.query(ob, false)
	r := runOne(solverSpecs[0], "(set-option :smt.mbqi false)\n"+q, 2)
	return r.Status != "unsat"
}

// closedWorld: the shared fields of a protocol structure are touched only by
// the structure's own methods and its constructor New<Struct> (a syntactic scan
// of the package's SSA; test files are not loaded). One pre-decided obligation
// per field.
func closedWorld(w *World, rel string, ps *ProtocolSpec, prop string) []*Obligation {
	pkg := w.pkgs[rel]
	if pkg == nil {
		return nil
	}
	fields := map[string]bool{}
	for _, sh := range ps.Shared {
		sh = strings.TrimSpace(sh)
		if strings.HasPrefix(sh, ps.Recv+".") && strings.Count(sh, ".") == 1 {
			fields[strings.TrimPrefix(sh, ps.Recv+".")] = true
		}
	}
	offenders := map[string][]string{}
	var visit func(fn *ssa.Function)
	visit = func(fn *ssa.Function) {
		own := false
		root := fn
		for root.Parent() != nil {
			root = root.Parent()
		}
		if root.Signature.Recv() != nil {
			if pt, ok := root.Signature.Recv().Type().Underlying().(*types.Pointer); ok && baseTypeName(pt.Elem()) == ps.Struct {
				own = true
			}
		}
		if root.Name() == "New"+ps.Struct {
			own = true
		}
		for _, b := range fn.Blocks {
			for _, in := range b.Instrs {
				fa, ok := in.(*ssa.FieldAddr)
				if !ok {
					continue
				}
				pt, ok := fa.X.Type().Underlying().(*types.Pointer)
				if !ok || baseTypeName(pt.Elem()) != ps.Struct {
					continue
				}
				st, ok := pt.Elem().Underlying().(*types.Struct)
				if !ok {
					continue
				}
				name := st.Field(fa.Field).Name()
				if fields[name] && !own {
					offenders[name] = append(offenders[name], fn.String())
				}
			}
		}
		for _, a := range fn.AnonFuncs {
			visit(a)
		}
	}
	for _, m := range pkg.Members {
		switch t := m.(type) {
		case *ssa.Function:
			visit(t)
		case *ssa.Type:
			for _, typ := range []types.Type{t.Type(), types.NewPointer(t.Type())} {
				ms := w.prog.MethodSets.MethodSet(typ)
				for i := 0; i < ms.Len(); i++ {
					if fn := w.prog.MethodValue(ms.At(i)); fn != nil && fn.Pkg == pkg {
						visit(fn)
					}
				}
			}
		}
	}
	var out []*Obligation
	for _, f := range sortedKeys(fields) {
		ob := &Obligation{Name: fmt.Sprintf("%s.closed-world[%s.%s is accessed only by methods of %s and New%s]", rel, ps.Struct, f, ps.Struct, ps.Struct),
			Func: rel + ".closed-world", Kind: "closedworld", Label: prop + ".closed-world." + f, Expect: "unsat"}
		if len(offenders[f]) == 0 {
			ob.Result = SolverResult{Status: "unsat", Solver: "ssa-scan"}
		} else {
			ob.Result = SolverResult{Status: "sat", Solver: "ssa-scan", Output: "accessed by: " + strings.Join(offenders[f], ", ")}
		}
		out = append(out, ob)
	}
	return out
}

