package main

// Exec: per-function verification context, obligations, loads/stores.

import (
	"fmt"
	"go/token"
	"go/types"
	"sort"
	"strings"

	"golang.org/x/tools/go/ssa"
)

type Obligation struct {
	Name   string // full obligation name (function#kind[label]@anchor)
	Func   string
	Kind   string
	Label  string
	Anchor string
	Pos    string
	Goal   Term
	PC     []Term
	Trace  []string
	Taint  string // the path went through a place where the contract did not fit the code (see State.taint)
	Expect string // "unsat" (proof obligation) or "sat" (reachability)
	Timeout int   // per-obligation solver timeout override (s); 0 = tier default
	PrePC   []Term // reach checks after a call: path condition before the call (a path that was already dead is not vacuity introduced by the callee's contract)
	PreQuery string
	Result SolverResult
	Query  string
}

type Exec struct {
	w           *World
	decls       *Decls
	structDone  map[string]bool
	structType  map[string]types.Type
	opaque      map[string]bool
	strLits     map[string]Term
	strLitOrder []string
	tags        map[string]int
	tagNames    map[int]string
	tagTypes    map[int]types.Type
	heapSorts   map[string]string
	ghostVars   map[string]*GhostVar
	ghostFuns   map[string]*GhostFun
	events      map[string]*EventDecl
	obls        []*Obligation
	cellN       int
	overflow    bool
	fn          *ssa.Function
	fnName      string
	contract    *Contract
	externals   map[string]bool
	inlined     map[string]bool
	usedContracts map[string]bool
	npaths      int
	errors      []string
	pkg         *types.Package
	iterN       int
	maxPaths    int
	assumes     []string
	recs        []*recorder
	muted       int
	loopsNoInv  int
	inheritedLoops map[string]bool // loop contracts of the function under contract used by an inlined helper's loop
	noInvLoops  map[string]bool // loops (also of inlined callees) met without a loop contract
	loopHeapMods map[string][]string
	epochN      int
	prune       bool
	closureByTerm map[string]*FnVal
	warnings    []string
	isCancel    map[string]bool
	libUsed     map[string]bool
	goStmts     map[string]bool
	locksNoInv  map[string]bool
	usedGhost   map[string]bool
	ginv        *GInv
	npathsDone  int
	epochPrev   map[int]int
	epochKeep   map[int][]string
}

func NewExec(w *World) *Exec {
	x := &Exec{
		w: w, decls: NewDecls(),
		structDone: map[string]bool{}, structType: map[string]types.Type{}, opaque: map[string]bool{},
		strLits: map[string]Term{}, tags: map[string]int{}, tagNames: map[int]string{}, tagTypes: map[int]types.Type{},
		heapSorts: map[string]string{}, ghostVars: map[string]*GhostVar{}, ghostFuns: map[string]*GhostFun{},
		events: map[string]*EventDecl{}, externals: map[string]bool{}, inlined: map[string]bool{},
		usedContracts: map[string]bool{}, maxPaths: 4000,
		epochPrev: map[int]int{}, epochKeep: map[int][]string{},
	}
	d := x.decls
	d.Sort("Ref")
	d.Sort("Str")
	d.Sort("Box")
	d.Const("null", "Ref")
	d.Const("nobox", "Box")
	d.Raw("dt:Slice", "(declare-datatypes ((Slice 0)) (((mk-slice (s-arr Ref) (s-off Int) (s-len Int) (s-cap Int)))))")
	d.Raw("dt:Iface", "(declare-datatypes ((Iface 0)) (((mk-iface (i-tag Int) (i-box Box)))))")
	d.Fun("atime", []string{"Ref"}, "Int")
	d.Fun("strcat", []string{"Str", "Str"}, "Str")
	d.Fun("strlen", []string{"Str"}, "Int")
	d.Axiom("strlen.nonneg", "(forall ((s Str)) (! (>= (strlen s) 0) :pattern ((strlen s))))")
	d.Axiom("strcat.len", "(forall ((a Str) (b Str)) (! (= (strlen (strcat a b)) (+ (strlen a) (strlen b))) :pattern ((strcat a b))))")
	// slice element position: sidx(off, k) = off + k, kept behind a function
	// symbol so that quantified facts about xs[k] have an arithmetic-free trigger
	d.Fun("sidx", []string{"Int", "Int"}, "Int")
	d.Axiom("sidx.def", "(forall ((o Int) (k Int)) (! (= (sidx o k) (+ o k)) :pattern ((sidx o k))))")
	d.Fun("gomod", []string{"Int", "Int"}, "Int")
	d.Axiom("gomod.small", "(forall ((a Int) (m Int)) (! (=> (and (<= 0 a) (< a m)) (= (gomod a m) a)) :pattern ((gomod a m))))")
	d.Axiom("gomod.wrap", "(forall ((a Int) (m Int)) (! (=> (and (<= m a) (< a (* 2 m))) (= (gomod a m) (- a m))) :pattern ((gomod a m))))")
	d.Axiom("gomod.range", "(forall ((a Int) (m Int)) (! (=> (and (<= 0 a) (< 0 m)) (and (<= 0 (gomod a m)) (< (gomod a m) m))) :pattern ((gomod a m))))")
	for _, cf := range w.contracts {
		for _, gv := range cf.GhostVars {
			x.ghostVars[gv.Name] = gv
		}
		for _, gf := range cf.GhostFuns {
			x.ghostFuns[gf.Name] = gf
		}
	}
	// events: one datatype for all packages
	var ctors []string
	for _, rel := range w.pkgOrder {
		cf := w.contracts[rel]
		if cf == nil {
			continue
		}
		for _, ev := range cf.Events {
			x.events[ev.Name] = ev
			var fs []string
			for i, f := range ev.Fields {
				fs = append(fs, fmt.Sprintf("(%s.%s %s)", ev.Name, f, ev.Sorts[i]))
			}
			if len(fs) == 0 {
				ctors = append(ctors, "("+ev.Name+")")
			} else {
				ctors = append(ctors, "("+ev.Name+" "+strings.Join(fs, " ")+")")
			}
		}
	}
	if len(ctors) > 0 {
		d.Raw("dt:Event", "(declare-datatypes ((Event 0)) (("+strings.Join(ctors, " ")+")))")
		// the effect log: built-in ghost variables log / loglen
		x.ghostVars["log"] = &GhostVar{Name: "log", Sort: ArraySort("Int", "Event")}
		x.ghostVars["loglen"] = &GhostVar{Name: "loglen", Sort: "Int"}
		// the log length is never negative
		d.Const("G$loglen@0", "Int")
		d.Axiom("loglen.nonneg", "(>= G$loglen@0 0)")
	}
	for _, name := range sortedKeys(x.ghostVars) {
		x.heapSorts["G$"+name] = x.ghostVars[name].Sort
	}
	for _, name := range sortedKeys(x.ghostFuns) {
		gf := x.ghostFuns[name]
		d.Fun(gf.Name, gf.Args, gf.Ret)
	}
	// axioms over ghost functions (trusted; listed in the evidence)
	for _, rel := range w.pkgOrder {
		cf := w.contracts[rel]
		if cf == nil {
			continue
		}
		for _, ax := range cf.Axioms {
			func() {
				defer func() {
					if r := recover(); r != nil {
						x.errorf("axiom %s: %v", ax.Label, r)
					}
				}()
				st := &State{cells: map[*Cell]Value{}, heap: map[string]Term{}, now: IntLit(0)}
				env := &Env{x: x, st: st, fi: -1, vars: map[string]Value{}, heap: st.heap, now: st.now, oldNow: st.now, pkg: w.typesPkg(cf.Pkg), where: "axiom " + ax.Label}
				t := env.EvalBool(ax.Text)
				d.Axiom("user."+rel+"."+ax.Label, t.S)
			}()
		}
	}
	return x
}

func (x *Exec) findPred(name string) *Pred {
	for _, cf := range x.w.contracts {
		if p, ok := cf.Preds[name]; ok {
			return p
		}
	}
	return nil
}

func (x *Exec) gomod(a, m Term) Term { return App("gomod", "Int", a, m) }

func (x *Exec) boundMethodTerm(recv Term, method string) Term {
	fn := "bound$" + method
	x.decls.Fun(fn, []string{recv.Sort}, "Ref")
	// a method value is never nil
	x.decls.Axiom("bound.nonnull."+fn+"."+recv.Sort, fmt.Sprintf("(forall ((r %s)) (! (not (= (%s r) null)) :pattern ((%s r))))", recv.Sort, fn, fn))
	return App(fn, "Ref", recv)
}

func (x *Exec) errorf(f string, a ...any) {
	msg := fmt.Sprintf(f, a...)
	for _, e := range x.errors {
		if e == msg {
			return
		}
	}
	x.errors = append(x.errors, msg)
}

func (x *Exec) pos(p token.Pos) string {
	if !p.IsValid() {
		return ""
	}
	ps := x.w.fset.Position(p)
	return fmt.Sprintf("%s:%d", ps.Filename, ps.Line)
}

// oblige records a proof obligation on the current path and then assumes it.
func (x *Exec) oblige(st *State, kind, label, anchor string, goal Term, pos token.Pos) {
	if goal.S == "true" || st.dead {
		return
	}
	if x.muted > 0 {
		st.assume(goal)
		return
	}
	name := x.fnName + "#" + kind
	if label != "" {
		name += "[" + label + "]"
	}
	if anchor != "" {
		name += "@" + anchor
	}
	ob := &Obligation{Name: name, Func: x.fnName, Kind: kind, Label: label, Anchor: anchor,
		Pos: x.pos(pos), Goal: goal, PC: append([]Term(nil), st.pc...), Trace: append([]string(nil), st.trace...), Expect: "unsat", Taint: st.taint}
	x.obls = append(x.obls, ob)
	// carved clauses (label with @case) isolate recorded defects: they are
	// checked but never assumed, so a failing one cannot make later
	// obligations on the same path vacuous
	if strings.Contains(label, "@") && strings.HasPrefix(label, "C") {
		return
	}
	st.assume(goal)
}

func (x *Exec) reach(st *State, anchor string) {
	if x.muted > 0 || st.dead {
		return
	}
	ob := &Obligation{Name: x.fnName + "#reach@" + anchor, Func: x.fnName, Kind: "reach", Anchor: anchor,
		Goal: FalseT, PC: append([]Term(nil), st.pc...), Expect: "sat"}
	x.obls = append(x.obls, ob)
}

// reachOnce: a reachability (vacuity) check recorded only for the first path
// that gets to the anchor.
func (x *Exec) reachOnce(st *State, anchor string, prePC []Term) {
	name := x.fnName + "#reach@" + anchor
	for _, ob := range x.obls {
		if ob.Name == name {
			return
		}
	}
	n := len(x.obls)
	x.reach(st, anchor)
	if len(x.obls) > n {
		x.obls[len(x.obls)-1].PrePC = append([]Term(nil), prePC...)
	}
}

// Query text for an obligation.
func (x *Exec) query(ob *Obligation, model bool) string {
	var sb strings.Builder
	sb.WriteString("(set-option :produce-models true)\n")
	sb.WriteString(x.decls.Text())
	sb.WriteString("\n")
	if len(x.strLitOrder) > 1 {
		sb.WriteString("(assert (distinct")
		for _, s := range x.strLitOrder {
			sb.WriteString(" " + x.strLits[s].S)
		}
		sb.WriteString("))\n")
	}
	for _, s := range x.strLitOrder {
		fmt.Fprintf(&sb, "(assert (= (strlen %s) %d))\n", x.strLits[s].S, len(s))
	}
	for _, p := range ob.PC {
		sb.WriteString("(assert " + fixBound(p.S) + ")\n")
	}
	if ob.Expect == "unsat" {
		sb.WriteString("(assert (not " + fixBound(ob.Goal.S) + "))\n")
	}
	sb.WriteString("(check-sat)\n")
	if model {
		sb.WriteString("(get-model)\n")
	}
	return sb.String()
}

// bound variables are written ?name in terms; SMT-LIB symbols may start with ?
// so nothing to fix, kept as a hook.
func fixBound(s string) string { return s }

// ---------------------------------------------------------------------------
// Locations

func (x *Exec) newCell(name string, t types.Type) *Cell {
	x.cellN++
	return &Cell{id: x.cellN, name: name, typ: t}
}

func (x *Exec) guardCheck(st *State, heapName string, write bool, atomicAccess bool, pos token.Pos) {
	if st.constructing {
		return
	}
	g := x.w.guardedArrays[heapName]
	if g == nil {
		return
	}
	for _, l := range st.locks {
		if l.guard == g {
			if write && l.mode == "R" {
				x.oblige(st, "guard", heapName, "write-under-RLock", FalseT, pos)
			}
			return
		}
	}
	if atomicAccess && !write {
		return
	}
	x.oblige(st, "guard", heapName, "", FalseT, pos)
}

// loadLoc reads a location. h==nil means the current heap.
func (x *Exec) loadLoc(st *State, l *Loc, h map[string]Term, why string) Value {
	epoch := st.epoch
	if h == nil {
		h = st.heap
	}
	switch {
	case l.Cell != nil:
		v, ok := st.cells[l.Cell]
		if !ok && l.Cell.global != nil {
			v = x.globalValue(st, l.Cell)
		} else if !ok {
			v = Value{T: x.zero(l.Cell.typ), Typ: l.Cell.typ}
		}
		if len(l.Path) == 0 {
			return v
		}
		t, ft := x.getPath(v.T, l.Cell.typ, l.Path)
		return Value{T: t, Typ: ft}
	case l.Root != nil:
		t, ft := x.loadField(st, h, epoch, l.Base, l.Root, l.Path)
		return Value{T: t, Typ: ft}
	default:
		ev := x.loadElem(st, h, epoch, l.ElemT, l.Arr, l.Idx)
		t, ft := x.getPath(ev, l.ElemT, l.Path)
		return Value{T: t, Typ: ft}
	}
}

func (x *Exec) storeLoc(st *State, l *Loc, v Value) {
	switch {
	case l.Cell != nil:
		if len(l.Path) == 0 {
			st.cells[l.Cell] = v
			return
		}
		cur, ok := st.cells[l.Cell]
		if !ok {
			cur = Value{T: x.zero(l.Cell.typ), Typ: l.Cell.typ}
		}
		st.cells[l.Cell] = Value{T: x.setPath(cur.T, l.Cell.typ, l.Path, v.T), Typ: l.Cell.typ}
	case l.Root != nil:
		x.storeField(st, l.Base, l.Root, l.Path, v.T)
	default:
		if len(l.Path) == 0 {
			x.storeElem(st, l.ElemT, l.Arr, l.Idx, v.T)
			return
		}
		cur := x.loadElem(st, st.heap, st.epoch, l.ElemT, l.Arr, l.Idx)
		x.storeElem(st, l.ElemT, l.Arr, l.Idx, x.setPath(cur, l.ElemT, l.Path, v.T))
	}
}

func (x *Exec) locHeapNames(l *Loc) []string {
	switch {
	case l.Cell != nil:
		return nil
	case l.Root != nil:
		_, ft := x.fieldHeapName(l.Root, l.Path)
		var ls [][]int
		x.leaves(ft, nil, &ls)
		var out []string
		if _, ok := structOf(ft); !ok || x.isOpaqueStruct(ft) {
			n, _ := x.fieldHeapName(l.Root, l.Path)
			return []string{n}
		}
		for _, p := range ls {
			n, _ := x.fieldHeapName(l.Root, append(append([]int(nil), l.Path...), p...))
			out = append(out, n)
		}
		return out
	default:
		return []string{x.elemHeapName(x.sortOf(l.ElemT))}
	}
}

// valueTerm converts a Value to a term; Go-side locations cannot be converted.
func (x *Exec) valueTerm(v Value) Term {
	if v.Loc != nil && v.T.S == "" {
		x.errorf("unsupported: escaping pointer to a cell/field")
		return x.decls.Fresh("escaped", "Ref")
	}
	if v.Fn != nil && v.T.S == "" {
		return x.fnTerm(v.Fn)
	}
	return v.T
}

func (x *Exec) fnTerm(f *FnVal) Term {
	if f.Recv != nil && f.Meth != nil {
		return x.boundMethodTerm(f.Recv.T, f.Meth.Name())
	}
	name := "fn$" + sanitize(f.Fn.String())
	if len(f.Bind) > 0 {
		// closures: identity is fresh per creation; approximate with a constant per site
		return x.decls.Fresh(name, "Ref")
	}
	c := x.decls.Const(name, "Ref")
	x.decls.Axiom("fn.nonnull."+name, "(not (= "+name+" null))")
	return c
}

func sortedObls(obls []*Obligation) {
	sort.SliceStable(obls, func(i, j int) bool { return obls[i].Name < obls[j].Name })
}

// globalValue: a package-level variable that this path has not written. A
// variable only ever written by its initialiser is a constant of the program
// (one symbol per variable; non-nil when it holds errors.New/fmt.Errorf);
// any other variable may have been written by anyone: every read is arbitrary.
func (x *Exec) globalValue(st *State, c *Cell) Value {
	gi := x.w.globalInfoOf(c.global)
	if !gi.initOnly {
		return x.freshValue(st, "global."+c.name, c.typ)
	}
	name := "globalconst$" + strings.NewReplacer("/", "_", ".", "_").Replace(c.global.Pkg.Pkg.Path()) + "$" + c.name
	v := Value{T: x.decls.Const(name, x.sortOf(c.typ)), Typ: c.typ}
	if gi.nonNil && x.sortOf(c.typ) == "Iface" {
		st.assume(Not(Eq(iTag(v.T), IntLit(0))))
	}
	return v
}
