package main

// Semantic model: Go types -> SMT sorts, values, locations, heap, state.

import (
	"fmt"
	"go/types"
	"strings"

	"golang.org/x/tools/go/ssa"
)

type Cell struct {
	id     int
	name   string
	typ    types.Type
	global *ssa.Global // package-level variable (nil for locals)
}

type FnVal struct {
	Fn   *ssa.Function
	Bind []Value
	Recv *Value // bound method receiver (for $bound closures / interface method values)
	Meth *types.Func
}

type Loc struct {
	Cell  *Cell
	Base  Term       // object reference for field locations
	Root  types.Type // struct type of *Base (named or struct)
	Arr   Term       // element location: backing array ref
	Idx   Term       // absolute index
	ElemT types.Type // element type for Arr/Idx locations
	Path  []int      // field path below the cell value / element / object
}

type Value struct {
	T   Term
	Typ types.Type
	Loc *Loc
	Tup []Value
	Fn  *FnVal
	It  *IterVal
}

type IterVal struct {
	Map     Value
	Visited Term // (Array K Bool)
	Count   Term // number of keys visited so far (Int)
	Dom0    Term // domain of the map when the iteration started (Array K Bool)
	id      int
	ord     int
}

type deferred struct {
	call *ssa.CallCommon
	args []Value
	fn   Value
	site ssa.Instruction
}

type Frame struct {
	fn       *ssa.Function
	regs     map[ssa.Value]Value
	allocs   map[*ssa.Alloc]*Cell
	order    []*ssa.Alloc // allocation order, for name lookup
	defers   []deferred
	loopsOn  map[*ssa.BasicBlock]bool
	ret      func(st *State, results []Value)
	pan      func(st *State)
	bind     []Value // free variables
	contract *Contract
	params   map[string]Value // entry values of params
	callIdx  map[string]int   // per-callee-name ordinal counters (anchors)
	depth    int
	retIdx   int
	iters    map[*ssa.Range]*IterVal
	loopEntryHeap map[int]map[string]Term
	loopMods  map[int]map[string][]Term
	iterCells map[*ssa.Range]*Cell
	unlockIdx int
	phiOv     map[*ssa.Phi]Value // loop-header phis havoced by loopEnter (replaced, never mutated)
	heapLocals map[string]Value  // locals that live on the heap (address taken and escaping): name -> pointer
}

type lockHeld struct {
	guard *GuardSpec
	obj   Term
	mode  string // "W" or "R"
	snap  map[string]Term
	snapEpoch int
}

type State struct {
	taint string // why whatever fails further down this path is undecided (a contract clause could not be applied on it)
	cells    map[*Cell]Value
	heap     map[string]Term
	epoch    int
	pc       []Term
	now      Term
	panicking *Value
	frames   []*Frame
	locks    []lockHeld
	oldHeap  map[string]Term
	oldEpoch int
	oldNow   Term
	trace    []string
	ghostLoc map[string]Value
	dead     bool
	constructing bool
	nforks   int
	// objects whose state was re-read under a lock (other threads may have
	// changed it): exempt from the function's frame check, per heap array
	lockHavoc map[string][]Term
}

func (st *State) clone() *State {
	n := &State{
		cells: make(map[*Cell]Value, len(st.cells)),
		heap:  make(map[string]Term, len(st.heap)),
		epoch: st.epoch, now: st.now, panicking: st.panicking,
		oldHeap: st.oldHeap, oldEpoch: st.oldEpoch, oldNow: st.oldNow,
		constructing: st.constructing, nforks: st.nforks, taint: st.taint,
	}
	if st.lockHavoc != nil {
		n.lockHavoc = map[string][]Term{}
		for k, v := range st.lockHavoc {
			n.lockHavoc[k] = append([]Term(nil), v...)
		}
	}
	for k, v := range st.cells {
		n.cells[k] = v
	}
	for k, v := range st.heap {
		n.heap[k] = v
	}
	n.pc = append([]Term(nil), st.pc...)
	n.trace = append([]string(nil), st.trace...)
	n.locks = append([]lockHeld(nil), st.locks...)
	if st.ghostLoc != nil {
		n.ghostLoc = map[string]Value{}
		for k, v := range st.ghostLoc {
			n.ghostLoc[k] = v
		}
	}
	for _, f := range st.frames {
		nf := *f
		nf.regs = make(map[ssa.Value]Value, len(f.regs))
		for k, v := range f.regs {
			nf.regs[k] = v
		}
		nf.allocs = make(map[*ssa.Alloc]*Cell, len(f.allocs))
		for k, v := range f.allocs {
			nf.allocs[k] = v
		}
		nf.order = append([]*ssa.Alloc(nil), f.order...)
		nf.defers = append([]deferred(nil), f.defers...)
		nf.loopsOn = make(map[*ssa.BasicBlock]bool, len(f.loopsOn))
		for k, v := range f.loopsOn {
			nf.loopsOn[k] = v
		}
		nf.callIdx = make(map[string]int, len(f.callIdx))
		for k, v := range f.callIdx {
			nf.callIdx[k] = v
		}
		nf.iters = make(map[*ssa.Range]*IterVal, len(f.iters))
		for k, v := range f.iters {
			nf.iters[k] = v
		}
		nf.loopEntryHeap = make(map[int]map[string]Term, len(f.loopEntryHeap))
		for k, v := range f.loopEntryHeap {
			nf.loopEntryHeap[k] = v
		}
		n.frames = append(n.frames, &nf)
	}
	return n
}

func (st *State) assume(t Term) {
	if t.S == "true" {
		return
	}
	if t.S == "false" {
		st.dead = true
	}
	st.pc = append(st.pc, t)
}

func copyHeap(h map[string]Term) map[string]Term {
	n := make(map[string]Term, len(h))
	for k, v := range h {
		n[k] = v
	}
	return n
}

// ---------------------------------------------------------------------------
// Sorts

func (x *Exec) qual(p *types.Package) string {
	if p == nil {
		return ""
	}
	return p.Name()
}

func (x *Exec) typeName(t types.Type) string {
	return sanitize(normTypeParams(types.TypeString(t, x.qual)))
}

// normTypeParams rewrites "RingBuffer[T any]" / "SafeMap[K comparable, V any]"
// (the declared generic type) to "RingBuffer[T]" / "SafeMap[K, V]" so that it
// names the same heap arrays as the receiver type inside method bodies.
func normTypeParams(s string) string {
	var sb strings.Builder
	i := 0
	for i < len(s) {
		if s[i] != '[' {
			sb.WriteByte(s[i])
			i++
			continue
		}
		// find matching ]
		d, j := 0, i
		for ; j < len(s); j++ {
			if s[j] == '[' {
				d++
			} else if s[j] == ']' {
				d--
				if d == 0 {
					break
				}
			}
		}
		if j >= len(s) {
			sb.WriteString(s[i:])
			break
		}
		inner := s[i+1 : j]
		parts := splitTopComma(inner)
		isParams := len(parts) > 0
		for _, p := range parts {
			f := strings.Fields(p)
			if len(f) != 2 || !isIdentStr(f[0]) {
				isParams = false
			}
		}
		if isParams {
			var names []string
			for _, p := range parts {
				names = append(names, strings.Fields(p)[0])
			}
			sb.WriteString("[" + strings.Join(names, ", ") + "]")
		} else {
			sb.WriteString("[" + normTypeParams(inner) + "]")
		}
		i = j + 1
	}
	return sb.String()
}

func isIdentStr(s string) bool {
	for i := 0; i < len(s); i++ {
		if !isIdent(s[i]) {
			return false
		}
	}
	return len(s) > 0
}

func isRepoPkg(p *types.Package) bool {
	return p != nil && strings.HasPrefix(p.Path(), "github.com/anthdm/hollywood")
}

// structOf returns the struct underlying t if it is a struct value type.
func structOf(t types.Type) (*types.Struct, bool) {
	s, ok := t.Underlying().(*types.Struct)
	return s, ok
}

func (x *Exec) isOpaqueStruct(t types.Type) bool {
	if n, ok := t.(*types.Named); ok {
		if n.Obj() != nil && !isRepoPkg(n.Obj().Pkg()) {
			return true
		}
	}
	return false
}

func (x *Exec) sortOf(t types.Type) string {
	switch tt := t.(type) {
	case *types.Alias:
		return x.sortOf(types.Unalias(tt))
	case *types.TypeParam:
		name := "TP$" + tt.Obj().Name()
		x.decls.Sort(name)
		return name
	case *types.Tuple:
		panic("sortOf tuple")
	}
	switch u := t.Underlying().(type) {
	case *types.Basic:
		switch {
		case u.Info()&types.IsInteger != 0:
			return "Int"
		case u.Info()&types.IsBoolean != 0:
			return "Bool"
		case u.Info()&types.IsString != 0:
			return "Str"
		case u.Info()&types.IsFloat != 0:
			return "Real"
		case u.Kind() == types.UnsafePointer:
			return "Ref"
		case u.Kind() == types.UntypedNil:
			return "Ref"
		}
		return "Int"
	case *types.Pointer, *types.Map, *types.Chan, *types.Signature:
		return "Ref"
	case *types.Slice:
		return "Slice"
	case *types.Interface:
		return "Iface"
	case *types.Struct:
		return x.structSort(t)
	case *types.Array:
		name := "Arr$" + x.typeName(t)
		x.decls.Sort(name)
		return name
	}
	panic(fmt.Sprintf("sortOf: unsupported type %s", t))
}

func (x *Exec) structSort(t types.Type) string {
	name := "S$" + x.typeName(t)
	if x.structDone[name] {
		return name
	}
	x.structDone[name] = true
	if x.isOpaqueStruct(t) {
		x.decls.Sort(name)
		x.opaque[name] = true
		return name
	}
	s := t.Underlying().(*types.Struct)
	var fs []string
	for i := 0; i < s.NumFields(); i++ {
		f := s.Field(i)
		fs = append(fs, fmt.Sprintf("(%s %s)", x.fieldSel(name, f.Name()), x.sortOf(f.Type())))
	}
	x.structType[name] = t
	ctor := "mk-" + name
	if len(fs) == 0 {
		x.decls.Raw("dt:"+name, fmt.Sprintf("(declare-datatypes ((%s 0)) (((%s))))", name, ctor))
	} else {
		x.decls.Raw("dt:"+name, fmt.Sprintf("(declare-datatypes ((%s 0)) (((%s %s))))", name, ctor, strings.Join(fs, " ")))
	}
	return name
}

func (x *Exec) fieldSel(structSort, field string) string {
	return structSort + "." + field
}

func (x *Exec) mkStruct(t types.Type, fields []Term) Term {
	name := x.structSort(t)
	return App("mk-"+name, name, fields...)
}

func (x *Exec) structField(v Term, t types.Type, i int) Term {
	name := x.structSort(t)
	if x.opaque[name] {
		f := "opq$" + name + "$" + fmt.Sprint(i)
		s := t.Underlying().(*types.Struct)
		fs := x.sortOf(s.Field(i).Type())
		x.decls.Fun(f, []string{name}, fs)
		return App(f, fs, v)
	}
	s := t.Underlying().(*types.Struct)
	f := s.Field(i)
	// projection of a constructor application: pick the argument
	if strings.HasPrefix(v.S, "(mk-"+name+" ") {
		if parts := splitSexp(v.S); len(parts) == s.NumFields()+1 {
			return Term{parts[i+1], x.sortOf(f.Type())}
		}
	}
	return App(x.fieldSel(name, f.Name()), x.sortOf(f.Type()), v)
}

func (x *Exec) structUpdate(v Term, t types.Type, i int, nv Term) Term {
	s := t.Underlying().(*types.Struct)
	var fs []Term
	for j := 0; j < s.NumFields(); j++ {
		if j == i {
			fs = append(fs, nv)
		} else {
			fs = append(fs, x.structField(v, t, j))
		}
	}
	return x.mkStruct(t, fs)
}

// getPath projects a struct value along a field path; returns term and type.
func (x *Exec) getPath(v Term, t types.Type, path []int) (Term, types.Type) {
	for _, i := range path {
		s := t.Underlying().(*types.Struct)
		v = x.structField(v, t, i)
		t = s.Field(i).Type()
	}
	return v, t
}

func (x *Exec) setPath(v Term, t types.Type, path []int, nv Term) Term {
	if len(path) == 0 {
		return nv
	}
	s := t.Underlying().(*types.Struct)
	i := path[0]
	sub := x.structField(v, t, i)
	sub2 := x.setPath(sub, s.Field(i).Type(), path[1:], nv)
	return x.structUpdate(v, t, i, sub2)
}

func (x *Exec) zero(t types.Type) Term {
	sort := x.sortOf(t)
	switch sort {
	case "Int":
		return IntLit(0)
	case "Bool":
		return FalseT
	case "Str":
		return x.strLit("")
	case "Ref":
		return NullT
	case "Slice":
		return x.nilSlice()
	case "Iface":
		return x.nilIface()
	case "Real":
		return Term{"0.0", "Real"}
	}
	if s, ok := structOf(t); ok && !x.opaque[sort] {
		var fs []Term
		for i := 0; i < s.NumFields(); i++ {
			fs = append(fs, x.zero(s.Field(i).Type()))
		}
		return x.mkStruct(t, fs)
	}
	return x.decls.Const("zero$"+sort, sort)
}

func (x *Exec) nilSlice() Term {
	return Term{"(mk-slice null 0 0 0)", "Slice"}
}
func (x *Exec) nilIface() Term { return Term{"(mk-iface 0 nobox)", "Iface"} }

func sliceSel(s Term, i int, sel, sort string) Term {
	if strings.HasPrefix(s.S, "(mk-slice ") {
		if parts := splitSexp(s.S); len(parts) == 5 {
			return Term{parts[i], sort}
		}
	}
	return App(sel, sort, s)
}
func sArr(s Term) Term { return sliceSel(s, 1, "s-arr", "Ref") }
func sOff(s Term) Term { return sliceSel(s, 2, "s-off", "Int") }
func sIdx(off, k Term) Term {
	if off.S == "0" {
		return k
	}
	return App("sidx", "Int", off, k)
}
func sLen(s Term) Term { return sliceSel(s, 3, "s-len", "Int") }
func sCap(s Term) Term { return sliceSel(s, 4, "s-cap", "Int") }
func mkSlice(arr, off, ln, cp Term) Term {
	return App("mk-slice", "Slice", arr, off, ln, cp)
}
func iTag(i Term) Term { return App("i-tag", "Int", i) }
func iBox(i Term) Term { return App("i-box", "Box", i) }

func (x *Exec) strLit(s string) Term {
	if t, ok := x.strLits[s]; ok {
		return t
	}
	name := fmt.Sprintf("str$%d", len(x.strLits))
	t := x.decls.Const(name, "Str")
	x.strLits[s] = t
	x.strLitOrder = append(x.strLitOrder, s)
	return t
}

func (x *Exec) tagOf(t types.Type) Term {
	t = types.Unalias(t)
	key := types.TypeString(t, nil)
	if n, ok := x.tags[key]; ok {
		return IntLit(int64(n))
	}
	n := len(x.tags) + 1
	x.tags[key] = n
	x.tagNames[n] = key
	x.tagTypes[n] = t
	return IntLit(int64(n))
}

func (x *Exec) boxFns(sort string) (string, string) {
	b, u := "box$"+sort, "unbox$"+sort
	if !x.decls.Has(b) {
		x.decls.Fun(b, []string{sort}, "Box")
		x.decls.Fun(u, []string{"Box"}, sort)
		x.decls.Axiom("unbox."+sort, fmt.Sprintf("(forall ((v %s)) (! (= (%s (%s v)) v) :pattern ((%s v))))", sort, u, b, b))
	}
	return b, u
}

func (x *Exec) makeIface(v Term, t types.Type) Term {
	if _, isI := t.Underlying().(*types.Interface); isI {
		if _, tp := t.(*types.TypeParam); !tp {
			return v
		}
	}
	b, _ := x.boxFns(v.Sort)
	return App("mk-iface", "Iface", x.tagOf(t), App(b, "Box", v))
}

func (x *Exec) unbox(i Term, t types.Type) Term {
	sort := x.sortOf(t)
	_, u := x.boxFns(sort)
	return App(u, sort, iBox(i))
}

// implements(tag, iface) as an uninterpreted predicate per interface type.
func (x *Exec) implPred(it types.Type) string {
	name := "impl$" + x.typeName(it)
	x.decls.Fun(name, []string{"Int"}, "Bool")
	return name
}

// ---------------------------------------------------------------------------
// Heap

func (x *Exec) heapInit(name, sort string, epoch int) Term {
	// an array that a whole-heap havoc preserved (its name has a kept prefix)
	// is the same array as before that havoc
	for epoch > 0 {
		kept := false
		for _, p := range x.epochKeep[epoch] {
			if strings.HasPrefix(name, p) {
				kept = true
			}
		}
		if !kept {
			break
		}
		epoch = x.epochPrev[epoch]
	}
	return x.decls.Const(fmt.Sprintf("%s@%d", name, epoch), sort)
}

func (x *Exec) heapGet(st *State, name, sort string) Term {
	if t, ok := st.heap[name]; ok {
		return t
	}
	x.heapSorts[name] = sort
	return x.heapInit(name, sort, st.epoch)
}

func (x *Exec) heapGetIn(h map[string]Term, epoch int, name, sort string) Term {
	if t, ok := h[name]; ok {
		return t
	}
	x.heapSorts[name] = sort
	return x.heapInit(name, sort, epoch)
}

// heapSet installs a new version; large terms are named.
func (x *Exec) heapSet(st *State, name string, t Term) {
	x.heapSorts[name] = t.Sort
	if len(t.S) > 60 {
		c := x.decls.Fresh(name, t.Sort)
		st.assume(Eq(c, t))
		t = c
	}
	st.heap[name] = t
}

func (x *Exec) fieldHeapName(root types.Type, path []int) (string, types.Type) {
	name := "H$" + x.typeName(root)
	t := root
	for _, i := range path {
		s := t.Underlying().(*types.Struct)
		name += "$" + s.Field(i).Name()
		t = s.Field(i).Type()
	}
	return name, t
}

func (x *Exec) elemHeapName(elemSort string) string { return "E$" + elemSort }

// leaves enumerates the leaf field paths of struct type t (flattening
// repository struct values; opaque structs are leaves).
func (x *Exec) leaves(t types.Type, prefix []int, out *[][]int) {
	s, ok := structOf(t)
	if !ok || x.isOpaqueStruct(t) {
		*out = append(*out, append([]int(nil), prefix...))
		return
	}
	if s.NumFields() == 0 {
		return
	}
	for i := 0; i < s.NumFields(); i++ {
		x.leaves(s.Field(i).Type(), append(prefix, i), out)
	}
}

// loadField reads root.path at object base (type at path may be a struct value).
func (x *Exec) loadField(st *State, h map[string]Term, epoch int, base Term, root types.Type, path []int) (Term, types.Type) {
	_, ft := x.fieldHeapName(root, path)
	if s, ok := structOf(ft); ok && !x.isOpaqueStruct(ft) {
		var fs []Term
		for i := 0; i < s.NumFields(); i++ {
			v, _ := x.loadField(st, h, epoch, base, root, append(append([]int(nil), path...), i))
			fs = append(fs, v)
		}
		return x.mkStruct(ft, fs), ft
	}
	name, _ := x.fieldHeapName(root, path)
	sort := x.sortOf(ft)
	arr := x.heapGetIn(h, epoch, name, ArraySort("Ref", sort))
	return Select(arr, base), ft
}

func (x *Exec) storeField(st *State, base Term, root types.Type, path []int, v Term) {
	_, ft := x.fieldHeapName(root, path)
	if s, ok := structOf(ft); ok && !x.isOpaqueStruct(ft) {
		for i := 0; i < s.NumFields(); i++ {
			x.storeField(st, base, root, append(append([]int(nil), path...), i), x.structField(v, ft, i))
		}
		return
	}
	name, _ := x.fieldHeapName(root, path)
	sort := x.sortOf(ft)
	arr := x.heapGet(st, name, ArraySort("Ref", sort))
	x.heapSet(st, name, Store(arr, base, v))
}

func (x *Exec) elemArr(st *State, h map[string]Term, epoch int, elemSort string, arr Term) Term {
	name := x.elemHeapName(elemSort)
	E := x.heapGetIn(h, epoch, name, ArraySort("Ref", ArraySort("Int", elemSort)))
	return Select(E, arr)
}

func (x *Exec) loadElem(st *State, h map[string]Term, epoch int, elemT types.Type, arr, idx Term) Term {
	return Select(x.elemArr(st, h, epoch, x.sortOf(elemT), arr), idx)
}

func (x *Exec) storeElem(st *State, elemT types.Type, arr, idx, v Term) {
	es := x.sortOf(elemT)
	name := x.elemHeapName(es)
	E := x.heapGet(st, name, ArraySort("Ref", ArraySort("Int", es)))
	x.heapSet(st, name, Store(E, arr, Store(Select(E, arr), idx, v)))
}

// freshRef allocates a new object reference.
func (x *Exec) freshRef(st *State, hint string) Term {
	r := x.decls.Fresh("new$"+hint, "Ref")
	x.recFresh(r)
	st.assume(Not(Eq(r, NullT)))
	st.assume(Eq(App("atime", "Int", r), st.now))
	st.now = Add(st.now, IntLit(1))
	if len(st.now.S) > 40 {
		c := x.decls.Fresh("now", "Int")
		st.assume(Eq(c, st.now))
		st.now = c
	}
	// a fresh object is not referenced from anywhere in the heap
	for _, name := range sortedKeys(x.heapSorts) {
		sortS := x.heapSorts[name]
		cur := x.heapGet(st, name, sortS)
		switch sortS {
		case "(Array Ref Ref)":
			st.assume(Term{fmt.Sprintf("(forall ((?o Ref)) (! (distinct (select %s ?o) %s) :pattern ((select %s ?o))))", cur.S, r.S, cur.S), "Bool"})
		case "(Array Ref Slice)":
			st.assume(Term{fmt.Sprintf("(forall ((?o Ref)) (! (distinct (s-arr (select %s ?o)) %s) :pattern ((select %s ?o))))", cur.S, r.S, cur.S), "Bool"})
		case "(Array Ref (Array Int Ref))":
			st.assume(Term{fmt.Sprintf("(forall ((?o Ref) (?i Int)) (! (distinct (select (select %s ?o) ?i) %s) :pattern ((select (select %s ?o) ?i))))", cur.S, r.S, cur.S), "Bool"})
		default:
			// map value arrays (Array Ref (Array K Ref)): a fresh object is not stored in any map
			if strings.HasPrefix(sortS, "(Array Ref (Array ") && strings.HasSuffix(sortS, " Ref))") && sortS != "(Array Ref (Array Int Ref))" {
				ks := strings.TrimSuffix(strings.TrimPrefix(sortS, "(Array Ref (Array "), " Ref))")
				st.assume(Term{fmt.Sprintf("(forall ((?o Ref) (?k %s)) (! (distinct (select (select %s ?o) ?k) %s) :pattern ((select (select %s ?o) ?k))))", ks, cur.S, r.S, cur.S), "Bool"})
			}
		case "(Array Ref (Array Int Slice))":
			st.assume(Term{fmt.Sprintf("(forall ((?o Ref) (?i Int)) (! (distinct (s-arr (select (select %s ?o) ?i)) %s) :pattern ((select (select %s ?o) ?i))))", cur.S, r.S, cur.S), "Bool"})
		}
	}
	return r
}

// wellTyped returns the implicit type invariants of a value of Go type t
// that was read from the heap / received as a parameter.
func (x *Exec) wellTyped(st *State, v Term, t types.Type) Term {
	switch v.Sort {
	case "Ref":
		return Or(Eq(v, NullT), Lt(App("atime", "Int", v), st.now))
	case "Slice":
		return And(
			Le(IntLit(0), sOff(v)), Le(IntLit(0), sLen(v)), Le(sLen(v), sCap(v)),
			Or(Eq(sArr(v), NullT), Lt(App("atime", "Int", sArr(v)), st.now)),
			Implies(Eq(sArr(v), NullT), Eq(sCap(v), IntLit(0))),
		)
	case "Int":
		if b, ok := t.Underlying().(*types.Basic); ok && b.Info()&types.IsUnsigned != 0 {
			return Le(IntLit(0), v)
		}
		if b, ok := t.Underlying().(*types.Basic); ok && x.overflow {
			switch b.Kind() {
			case types.Int32:
				return And(Le(IntLitS("-2147483648"), v), Le(v, IntLitS("2147483647")))
			case types.Int64, types.Int:
				return And(Le(IntLitS("-9223372036854775808"), v), Le(v, IntLitS("9223372036854775807")))
			}
		}
	}
	if s, ok := structOf(t); ok && !x.opaque[v.Sort] && v.Sort != "Slice" && v.Sort != "Iface" {
		var cs []Term
		for i := 0; i < s.NumFields(); i++ {
			cs = append(cs, x.wellTyped(st, x.structField(v, t, i), s.Field(i).Type()))
		}
		return And(cs...)
	}
	return TrueT
}

func (x *Exec) freshValue(st *State, hint string, t types.Type) Value {
	if tup, ok := t.(*types.Tuple); ok {
		var vs []Value
		for i := 0; i < tup.Len(); i++ {
			vs = append(vs, x.freshValue(st, fmt.Sprintf("%s.%d", hint, i), tup.At(i).Type()))
		}
		if len(vs) == 1 {
			return vs[0]
		}
		return Value{Tup: vs, Typ: t}
	}
	c := x.decls.Fresh(hint, x.sortOf(t))
	st.assume(x.wellTyped(st, c, t))
	return Value{T: c, Typ: t}
}

// Map model -----------------------------------------------------------------

func (x *Exec) mapArrs(st *State, h map[string]Term, epoch int, mt *types.Map) (dom, val, card Term, ks, vs string) {
	ks, vs = x.sortOf(mt.Key()), x.sortOf(mt.Elem())
	dn, vn, cn := x.mapNames(mt)
	dom = x.heapGetIn(h, epoch, dn, ArraySort("Ref", ArraySort(ks, "Bool")))
	val = x.heapGetIn(h, epoch, vn, ArraySort("Ref", ArraySort(ks, vs)))
	card = x.heapGetIn(h, epoch, cn, ArraySort("Ref", "Int"))
	return
}

// mapNames: the heap arrays (domain, values, cardinality) holding all maps of
// one Go map type. A map object has exactly one (underlying) type, so maps of
// different types never alias and live in different arrays.
func (x *Exec) mapNames(mt *types.Map) (dn, vn, cn string) {
	tag := x.typeName(mt)
	return "MD$" + tag, "MV$" + tag, "MC$" + tag
}

func (x *Exec) mapHas(st *State, h map[string]Term, epoch int, m Term, mt *types.Map, k Term) Term {
	dom, _, _, _, _ := x.mapArrs(st, h, epoch, mt)
	return And(Not(Eq(m, NullT)), Select(Select(dom, m), k))
}

func (x *Exec) mapGet(st *State, h map[string]Term, epoch int, m Term, mt *types.Map, k Term) Term {
	_, val, _, _, _ := x.mapArrs(st, h, epoch, mt)
	return Select(Select(val, m), k)
}

func (x *Exec) mapLen(st *State, h map[string]Term, epoch int, m Term, mt *types.Map) Term {
	_, _, card, _, _ := x.mapArrs(st, h, epoch, mt)
	return Ite(Eq(m, NullT), IntLit(0), Select(card, m))
}
