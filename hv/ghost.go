package main

// Ghost statements anchored at program points, and the effect log.

import (
	"fmt"
	"go/ast"
	"go/types"
	"os"
	"strings"

	"golang.org/x/tools/go/ssa"
)

func (x *Exec) atomicStep(st *State, fi int, site ssa.Instruction, anchor string, body func() Value, k func(*State, Value)) {
	if x.ginv != nil {
		x.ginvStep(st, fi, site, anchor, body, k)
		return
	}
	k(st, body())
}

func (x *Exec) ghostAt(st *State, fi int, anchor, when string, res *Value) {
	x.ghostAtX(st, fi, anchor, when, res, nil)
}

// ghostAtX: like ghostAt, with extra named values (call arguments arg0..argN)
// visible to the ghost statements.
var debugAnchors = os.Getenv("HV_ANCHORS") != ""

func (x *Exec) findGhostDef(name string) *GhostDef {
	for _, cf := range x.w.contracts {
		if gd, ok := cf.GhostDefs[name]; ok {
			return gd
		}
	}
	return nil
}

func (x *Exec) ghostAtX(st *State, fi int, anchor, when string, res *Value, extra map[string]Value) {
	if fi >= len(st.frames) {
		return
	}
	if debugAnchors && x.muted == 0 && when != "before" {
		fmt.Fprintf(os.Stderr, "anchor %s: %s\n", st.frames[fi].fn.Name(), anchor)
	}
	fr := st.frames[fi]
	c := fr.contract
	if c == nil {
		c = x.contractFor(fr.fn)
	}
	if c == nil {
		c = x.inheritedContract(st, fi, anchor)
	}
	if c == nil || len(c.Ghosts) == 0 {
		return
	}
	for _, g := range c.Ghosts {
		if !anchorMatches(g.Anchor, anchor) {
			continue
		}
		if (g.When == "before") != (when == "before") {
			continue
		}
		var cond Term = TrueT
		if g.When == "success" || g.When == "failure" {
			if res == nil || res.T.Sort != "Bool" {
				x.errorf("ghost at %s on %s: call has no boolean result", anchor, g.When)
				continue
			}
			cond = res.T
			if g.When == "failure" {
				cond = Not(res.T)
			}
		}
		x.usedGhost[fmt.Sprintf("%s:%d", c.Key, g.Line)] = true
		for _, s := range g.Stmts {
			x.ghostStmt(st, fi, c, g, s, cond, res, extra)
		}
	}
}

func (x *Exec) ghostAtVals(st *State, fi int, anchor string, vals map[string]Value) {
	fr := st.frames[fi]
	c := fr.contract
	if c == nil {
		c = x.contractFor(fr.fn)
	}
	if c == nil {
		c = x.inheritedContract(st, fi, anchor)
	}
	if c == nil {
		return
	}
	for _, g := range c.Ghosts {
		if !anchorMatches(g.Anchor, anchor) {
			continue
		}
		x.usedGhost[fmt.Sprintf("%s:%d", c.Key, g.Line)] = true
		for _, s := range g.Stmts {
			x.ghostStmtEnv(st, fi, c, g, s, TrueT, vals)
		}
	}
}

func (x *Exec) ghostAtStore(st *State, fi int, l *Loc) {
	if fi >= len(st.frames) {
		return
	}
	if l.Root == nil && l.Arr.S != "" {
		// store into a slice/array element: anchor "storeelem#k"
		fr := st.frames[fi]
		fr.callIdx["storeelem"]++
		x.ghostAt(st, fi, fmt.Sprintf("storeelem#%d", fr.callIdx["storeelem"]), "", nil)
		return
	}
	if l.Root == nil {
		return
	}
	s, ok := structOf(l.Root)
	if !ok || len(l.Path) == 0 {
		return
	}
	fname := s.Field(l.Path[0]).Name()
	fr := st.frames[fi]
	key := "store " + fname
	fr.callIdx[key]++
	x.ghostAt(st, fi, fmt.Sprintf("%s#%d", key, fr.callIdx[key]), "", nil)
}

func (x *Exec) ghostStmt(st *State, fi int, c *Contract, g *GhostStmt, s string, cond Term, res *Value, extra map[string]Value) {
	vals := map[string]Value{}
	for k, v := range extra {
		vals[k] = v
	}
	if res != nil {
		vals["result"] = *res
		for i, r := range res.Tup {
			vals[fmt.Sprintf("result%d", i)] = r
		}
	}
	x.ghostStmtEnv(st, fi, c, g, s, cond, vals)
}

func (x *Exec) ghostStmtEnv(st *State, fi int, c *Contract, g *GhostStmt, s string, cond Term, vals map[string]Value) {
	defer func() {
		if r := recover(); r != nil {
			if se, ok := r.(specError); ok {
				// a local that is declared in a block this path did not enter:
				// the statement does not apply on this path
				if j := strings.Index(se.msg, "unknown identifier \""); j >= 0 && fi < len(st.frames) {
					name := strings.TrimSuffix(se.msg[j+len("unknown identifier \""):], "\"")
					for _, b := range st.frames[fi].fn.Blocks {
						for _, in := range b.Instrs {
							if a, ok := in.(*ssa.Alloc); ok && a.Comment == name {
								return
							}
						}
					}
				}
				x.errorf("ghost statement (%s line %d): %s", c.Key, g.Line, se.msg)
				if st.taint == "" {
					st.taint = fmt.Sprintf("ghost statement line %d could not be evaluated: %s", g.Line, se.msg)
				}
				return
			}
			panic(r)
		}
	}()
	env := x.envFor(st, fi, true)
	env.outer1 = x.enclosingFrame(st, fi) + 1
	env.where = fmt.Sprintf("ghost at %s", g.Anchor)
	for k, v := range vals {
		env.vars[k] = v
	}
	s = strings.TrimSpace(s)
	pos := st.frames[fi].fn.Pos()
	switch {
	case strings.HasPrefix(s, "assert"):
		label, text := splitLabel(strings.TrimSpace(s[len("assert"):]))
		t := env.EvalBool(text)
		x.oblige(st, "assert", label, g.Anchor, Implies(cond, t), pos)
	case strings.HasPrefix(s, "assume ") || strings.HasPrefix(s, "assume["):
		label, text := splitLabel(strings.TrimSpace(s[len("assume"):]))
		x.assumes = append(x.assumes, fmt.Sprintf("%s: assume[%s] %s", c.Key, label, text))
		st.assume(Implies(cond, env.EvalBool(text)))
	case strings.HasPrefix(s, "unfold "):
		// unfold f(args): one ground instance of f's ghost definition
		call, err := parseSpec(strings.TrimSpace(s[len("unfold "):]))
		if err != nil {
			env.fail("%v", err)
		}
		ce, ok := call.(*ast.CallExpr)
		if !ok {
			env.fail("unfold needs a call")
		}
		id, ok := ce.Fun.(*ast.Ident)
		if !ok {
			env.fail("unfold needs a ghost function call")
		}
		gd := x.findGhostDef(id.Name)
		if gd == nil {
			env.fail("unfold: no ghost def %s", id.Name)
		}
		if len(gd.Params) != len(ce.Args) {
			env.fail("unfold %s: want %d args", id.Name, len(gd.Params))
		}
		lhs := env.eval(ce)
		n := env.child()
		n.vars = map[string]Value{}
		n.useCells = false
		for i, a := range ce.Args {
			n.vars[gd.Params[i]] = env.eval(a)
		}
		if p := x.w.typesPkg(gd.Pkg); p != nil {
			n.pkg = p
		}
		rhs := n.EvalText(gd.Body)
		st.assume(Implies(cond, Eq(lhs.T, rhs.T)))
	case strings.HasPrefix(s, "emit "):
		ev := env.EvalText(strings.TrimSpace(s[5:]))
		x.emit(st, ev.T, cond)
	default:
		j := strings.Index(s, "=")
		if j < 0 {
			env.fail("bad ghost statement %q", s)
		}
		name := strings.TrimSpace(s[:j])
		v := env.EvalText(strings.TrimSpace(s[j+1:]))
		if gv, ok := x.ghostVars[name]; ok {
			cur := x.heapGet(st, "G$"+name, gv.Sort)
			x.recHeap("G$" + name)
			x.heapSet(st, "G$"+name, Ite(cond, v.T, cur))
			return
		}
		// ghost local
		if st.ghostLoc == nil {
			st.ghostLoc = map[string]Value{}
		}
		for _, r := range x.recs {
			if r.ghostL == nil {
				r.ghostL = map[string]bool{}
			}
			r.ghostL[name] = true
		}
		if cur, ok := st.ghostLoc[name]; ok && cond.S != "true" {
			v.T = Ite(cond, v.T, cur.T)
		}
		st.ghostLoc[name] = v
	}
}

// emit appends an event to the effect log.
func (x *Exec) emit(st *State, ev Term, cond Term) {
	log := x.heapGet(st, "G$log", ArraySort("Int", "Event"))
	n := x.heapGet(st, "G$loglen", "Int")
	x.recHeap("G$log")
	x.recHeap("G$loglen")
	x.heapSet(st, "G$log", Ite(cond, Store(log, n, ev), log))
	x.heapSet(st, "G$loglen", Ite(cond, Add(n, IntLit(1)), n))
}

var anyType = types.Universe.Lookup("any").Type()

// anchorMatches: a ghost anchor without an ordinal ("return", "call Send")
// stands for every site of that kind; with one ("return#2") for that site.
func anchorMatches(spec, site string) bool {
	if spec == site {
		return true
	}
	return !strings.Contains(spec, "#") && strings.HasPrefix(site, spec+"#")
}

// A repository function without a contract that is inlined into a function
// under contract (typically a helper a refactoring extracted from it) is
// treated as part of that function: ghost anchors and loop contracts for which
// the enclosing function itself has no site any more apply to the helper's
// sites, and names the helper does not have resolve in the enclosing frame.
func (x *Exec) enclosingFrame(st *State, fi int) int {
	if fi <= 0 || fi >= len(st.frames) {
		return -1
	}
	fr := st.frames[fi]
	if fr.contract != nil || fr.fn.Parent() != nil || x.contractFor(fr.fn) != nil {
		return -1
	}
	for j := fi - 1; j >= 0; j-- {
		f := st.frames[j]
		if f.contract != nil || x.contractFor(f.fn) != nil {
			return j
		}
		if f.fn.Parent() != nil {
			return -1
		}
	}
	return -1
}

func (x *Exec) frameContract(fr *Frame) *Contract {
	if fr.contract != nil {
		return fr.contract
	}
	return x.contractFor(fr.fn)
}

func (x *Exec) inheritedContract(st *State, fi int, anchor string) *Contract {
	j := x.enclosingFrame(st, fi)
	if j < 0 {
		return nil
	}
	if x.hasAnchorSite(st.frames[j].fn, anchor) {
		return nil
	}
	return x.frameContract(st.frames[j])
}

// hasAnchorSite: does fn itself contain a site the anchor could name?
func (x *Exec) hasAnchorSite(fn *ssa.Function, anchor string) bool {
	kind, ord := anchor, 1
	if i := strings.LastIndex(anchor, "#"); i >= 0 {
		kind = anchor[:i]
		fmt.Sscanf(anchor[i+1:], "%d", &ord)
	}
	n := 0
	for _, b := range fn.Blocks {
		for _, in := range b.Instrs {
			switch t := in.(type) {
			case *ssa.Call:
				if strings.HasPrefix(kind, "call ") && x.calleeName(&t.Call, Value{}) == kind[5:] {
					n++
				}
			case *ssa.Defer:
				if strings.HasPrefix(kind, "call ") && x.calleeName(&t.Call, Value{}) == kind[5:] {
					n++
				}
			case *ssa.Go:
				if strings.HasPrefix(kind, "call ") && x.calleeName(&t.Call, Value{}) == kind[5:] {
					n++
				}
			case *ssa.MapUpdate:
				if kind == "mapupdate" {
					n++
				}
			case *ssa.Store:
				switch a := t.Addr.(type) {
				case *ssa.IndexAddr:
					if kind == "storeelem" {
						n++
					}
				case *ssa.FieldAddr:
					if strings.HasPrefix(kind, "store ") {
						if s, ok := structOf(a.X.Type()); ok && s.Field(a.Field).Name() == kind[6:] {
							n++
						}
					}
				}
			}
		}
	}
	if !strings.HasPrefix(kind, "call ") && kind != "mapupdate" && kind != "storeelem" && !strings.HasPrefix(kind, "store ") {
		return true // only these kinds of site are handed down to helpers
	}
	return n >= ord
}
