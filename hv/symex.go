package main

// Forward symbolic execution over go/ssa NaiveForm with loops cut at invariants.

import (
	"fmt"
	"go/constant"
	"go/token"
	"go/types"
	"sort"
	"strings"

	"golang.org/x/tools/go/ssa"
)

type loopInfo struct {
	header *ssa.BasicBlock
	blocks map[*ssa.BasicBlock]bool
	ord    int
}

type fnInfo struct {
	loops map[*ssa.BasicBlock]*loopInfo
}

func (x *Exec) info(fn *ssa.Function) *fnInfo {
	if fi, ok := x.w.fnInfos[fn]; ok {
		return fi
	}
	fi := &fnInfo{loops: map[*ssa.BasicBlock]*loopInfo{}}
	for _, b := range fn.Blocks {
		for _, s := range b.Succs {
			if s.Dominates(b) {
				li := fi.loops[s]
				if li == nil {
					li = &loopInfo{header: s, blocks: map[*ssa.BasicBlock]bool{s: true}}
					fi.loops[s] = li
				}
				// natural loop of back edge b->s
				stack := []*ssa.BasicBlock{b}
				for len(stack) > 0 {
					n := stack[len(stack)-1]
					stack = stack[:len(stack)-1]
					if li.blocks[n] {
						continue
					}
					li.blocks[n] = true
					stack = append(stack, n.Preds...)
				}
			}
		}
	}
	var hs []*ssa.BasicBlock
	for h := range fi.loops {
		hs = append(hs, h)
	}
	sort.Slice(hs, func(i, j int) bool { return hs[i].Index < hs[j].Index })
	for i, h := range hs {
		fi.loops[h].ord = i + 1
	}
	x.w.fnInfos[fn] = fi
	return fi
}

type recorder struct {
	cells   map[*Cell]bool
	heap    map[string]bool
	all     bool
	keep    []string // heap-name prefixes every whole-heap havoc in the loop preserved
	fi      int
	blocks  map[*ssa.BasicBlock]bool
	header  *ssa.BasicBlock
	ghostL  map[string]bool
	fresh     map[string]bool // objects allocated while this recorder was active
	heapFresh map[string]bool // object-indexed arrays written only at such objects
}

func (x *Exec) recCell(c *Cell) {
	for _, r := range x.recs {
		r.cells[c] = true
	}
}
func (x *Exec) recHeap(name string) {
	for _, r := range x.recs {
		r.heap[name] = true
	}
}

// recHeapObj: a write to object obj of an object-indexed array. For a loop
// whose body allocated obj itself the write does not touch any object that
// existed at the loop head.
func (x *Exec) recHeapObj(name string, obj Term) {
	for _, r := range x.recs {
		if r.fresh[obj.S] {
			if r.heapFresh == nil {
				r.heapFresh = map[string]bool{}
			}
			r.heapFresh[name] = true
			continue
		}
		r.heap[name] = true
	}
}

func (x *Exec) recFresh(obj Term) {
	for _, r := range x.recs {
		if r.fresh == nil {
			r.fresh = map[string]bool{}
		}
		r.fresh[obj.S] = true
	}
}
func (x *Exec) recAll(except []string) {
	for _, r := range x.recs {
		if !r.all {
			r.all = true
			r.keep = append([]string(nil), except...)
			continue
		}
		var both []string
		for _, a := range r.keep {
			for _, b := range except {
				if a == b {
					both = append(both, a)
				}
			}
		}
		r.keep = both
	}
}

// ---------------------------------------------------------------------------

func (x *Exec) pushFrame(st *State, fn *ssa.Function, args []Value, bind []Value, c *Contract,
	ret func(*State, []Value), pan func(*State)) int {
	fr := &Frame{fn: fn, regs: map[ssa.Value]Value{}, allocs: map[*ssa.Alloc]*Cell{},
		loopsOn: map[*ssa.BasicBlock]bool{}, ret: ret, pan: pan, bind: bind, contract: c,
		params: map[string]Value{}, callIdx: map[string]int{}, iters: map[*ssa.Range]*IterVal{},
		loopEntryHeap: map[int]map[string]Term{}, depth: len(st.frames)}
	for i, p := range fn.Params {
		if i < len(args) {
			fr.regs[p] = args[i]
			fr.params[p.Name()] = args[i]
			if c != nil && i < len(c.Aliases) && c.Aliases[i] != "" {
				fr.params[c.Aliases[i]] = args[i]
			}
		}
	}
	st.frames = append(st.frames, fr)
	return len(st.frames) - 1
}

func (x *Exec) runBody(st *State, fi int) {
	fn := st.frames[fi].fn
	if len(fn.Blocks) == 0 {
		x.errorf("function %s has no body", fn)
		return
	}
	x.execBlock(st, fi, fn.Blocks[0], nil)
}

func (x *Exec) execBlock(st *State, fi int, b *ssa.BasicBlock, from *ssa.BasicBlock) {
	if st.dead {
		return
	}
	fr := st.frames[fi]
	// discovery runs stop when they leave the loop
	for _, r := range x.recs {
		if r.fi == fi && len(st.frames)-1 == fi {
			if !r.blocks[b] || (b == r.header && from != nil && r.blocks[from] && fr.loopsOn[b]) {
				return
			}
		}
	}
	st.trace = append(st.trace, fmt.Sprintf("%s.%d", fr.fn.Name(), b.Index))
	if li := x.info(fr.fn).loops[b]; li != nil {
		if fr.loopsOn[b] {
			// back edge
			x.loopBackEdge(st, fi, li)
			return
		}
		x.loopEnter(st, fi, li, from)
		return
	}
	x.execFrom(st, fi, b, 0, from)
}

func (x *Exec) loopSpec(st *State, fi int, fr *Frame, li *loopInfo) *LoopSpec {
	c := x.contractFor(fr.fn)
	if c == nil {
		// a contract-less helper inlined into a function under contract takes
		// over the loop contracts that function no longer has loops for
		if j := x.enclosingFrame(st, fi); j >= 0 {
			of := st.frames[j]
			if oc := x.frameContract(of); oc != nil && li.ord > len(x.info(of.fn).loops) {
				if sp := oc.Loops[li.ord]; sp != nil {
					if x.inheritedLoops == nil {
						x.inheritedLoops = map[string]bool{}
					}
					x.inheritedLoops[fmt.Sprintf("%s:%d", oc.Key, li.ord)] = true
					return sp
				}
			}
		}
		return nil
	}
	return c.Loops[li.ord]
}

func (x *Exec) envFor(st *State, fi int, useCells bool) *Env {
	if fi < 0 || fi >= len(st.frames) {
		return &Env{x: x, st: st, fi: -1, vars: map[string]Value{}, heap: st.heap, epoch: st.epoch, now: st.now,
			old: st.oldHeap, oldEpoch: st.oldEpoch, oldNow: st.oldNow, pkg: x.pkg}
	}
	fr := st.frames[fi]
	var pkg *types.Package
	if fr.fn.Pkg != nil {
		pkg = fr.fn.Pkg.Pkg
	} else if fr.fn.Origin() != nil && fr.fn.Origin().Pkg != nil {
		pkg = fr.fn.Origin().Pkg.Pkg
	} else if p := fr.fn.Parent(); p != nil && p.Pkg != nil {
		pkg = p.Pkg.Pkg
	}
	if pkg == nil {
		pkg = x.pkg
	}
	return &Env{x: x, st: st, fi: fi, vars: map[string]Value{}, heap: st.heap, epoch: st.epoch, now: st.now,
		old: st.oldHeap, oldEpoch: st.oldEpoch, oldNow: st.oldNow, pkg: pkg, useCells: useCells}
}

func (x *Exec) evalClause(st *State, env *Env, cl *Clause) (t Term, ok bool) {
	defer func() {
		if r := recover(); r != nil {
			if se, isSE := r.(specError); isSE {
				x.errorf("contract error at %s line %d: %s", cl.Kind, cl.Line, se.msg)
				if st != nil && st.taint == "" {
					st.taint = fmt.Sprintf("%s line %d could not be evaluated: %s", cl.Kind, cl.Line, se.msg)
				}
				t, ok = TrueT, false
				return
			}
			panic(r)
		}
	}()
	env.where = fmt.Sprintf("%s[%s]", cl.Kind, cl.Label)
	return env.EvalBool(cl.Text), true
}

func (x *Exec) loopEnter(st *State, fi int, li *loopInfo, from *ssa.BasicBlock) {
	fr := st.frames[fi]
	spec := x.loopSpec(st, fi, fr, li)
	anchor := fmt.Sprintf("loop %d", li.ord)
	if fi > 0 {
		anchor = fmt.Sprintf("%s loop %d", fr.fn.Name(), li.ord)
	}
	// 1. invariants hold on entry
	if spec != nil {
		for _, inv := range spec.Invariants {
			env := x.envFor(st, fi, true)
			env.loopHdr, env.outer1 = li.header, x.enclosingFrame(st, fi)+1
			if t, ok := x.evalClause(st, env, inv); ok {
				x.oblige(st, "inv.entry", inv.Label, anchor, t, li.header.Instrs[0].Pos())
			}
		}
	}
	// 2. discover what the loop writes
	rec := &recorder{cells: map[*Cell]bool{}, heap: map[string]bool{}, fi: fi, blocks: li.blocks, header: li.header}
	{
		ds := st.clone()
		ds.frames[fi].loopsOn[li.header] = true
		x.recs = append(x.recs, rec)
		x.muted++
		x.execFrom(ds, fi, li.header, 0, from)
		x.muted--
		x.recs = x.recs[:len(x.recs)-1]
	}
	// propagate to enclosing recorders
	for c := range rec.cells {
		x.recCell(c)
	}
	for h := range rec.heap {
		x.recHeap(h)
	}
	if rec.all {
		x.recAll(rec.keep)
	}
	// 3. havoc
	preHeap := copyHeap(st.heap)
	preEpoch := st.epoch
	if rec.all {
		x.havocAll(st, rec.keep)
	}
	var cells []*Cell
	for c := range rec.cells {
		if _, live := st.cells[c]; live {
			cells = append(cells, c)
		}
	}
	sort.Slice(cells, func(i, j int) bool { return cells[i].id < cells[j].id })
	for _, c := range cells {
		old := st.cells[c]
		if old.It != nil {
			nv := x.decls.Fresh("visited", old.It.Visited.Sort)
			ncnt := x.decls.Fresh("visitedcount", "Int")
			st.assume(Le(IntLit(0), ncnt))
			st.cells[c] = Value{It: &IterVal{Map: old.It.Map, Visited: nv, Count: ncnt, Dom0: old.It.Dom0, id: old.It.id, ord: old.It.ord}}
			if st.ghostLoc == nil {
				st.ghostLoc = map[string]Value{}
			}
			st.ghostLoc[fmt.Sprintf("visited%d", old.It.ord)] = Value{T: nv}
			st.ghostLoc[fmt.Sprintf("count%d", old.It.ord)] = Value{T: ncnt, Typ: types.Typ[types.Int]}
			continue
		}
		if old.Loc != nil || old.Fn != nil || old.Tup != nil {
			continue
		}
		nv := x.freshValue(st, "loop."+c.name, c.typ)
		st.cells[c] = nv
	}
	// ghost locals assigned in the loop take an arbitrary value at the cut
	for _, name := range sortedKeys(rec.ghostL) {
		if cur, ok := st.ghostLoc[name]; ok && cur.T.S != "" {
			nv := cur
			nv.T = x.decls.Fresh("loop.ghost."+name, cur.T.Sort)
			st.ghostLoc[name] = nv
		}
		for _, r := range x.recs {
			if r.ghostL == nil {
				r.ghostL = map[string]bool{}
			}
			r.ghostL[name] = true
		}
	}
	modObjs := map[string][]Term{} // heap name -> objects allowed to change
	if spec != nil && spec.HasMod {
		env := x.envFor(st, fi, true)
		env.loopHdr, env.outer1 = li.header, x.enclosingFrame(st, fi)+1
		env.heap, env.epoch = preHeap, preEpoch
		for _, m := range spec.Modifies {
			x.resolveModifies(st, env, m, modObjs, fmt.Sprintf("loop %d modifies", li.ord))
		}
	}
	// arrays the body writes only at objects it allocated itself: objects that
	// existed at the loop head keep their content
	loopNow := st.now
	for _, name := range sortedKeys(rec.heapFresh) {
		sortS := x.heapSorts[name]
		if rec.heap[name] || rec.all || !strings.HasPrefix(sortS, "(Array Ref") {
			if !rec.heap[name] {
				rec.heap[name] = true
			}
			continue
		}
		for _, r := range x.recs {
			if r.heapFresh == nil {
				r.heapFresh = map[string]bool{}
			}
			r.heapFresh[name] = true
		}
		cur := x.heapGet(st, name, sortS)
		nv := x.decls.Fresh("loop."+name, sortS)
		st.assume(Term{fmt.Sprintf("(forall ((?r Ref)) (! (=> (< (atime ?r) %s) (= (select %s ?r) (select %s ?r))) :pattern ((select %s ?r))))", loopNow.S, nv.S, cur.S, nv.S), "Bool"})
		st.heap[name] = nv
	}
	names := sortedKeys(rec.heap)
	// a loop with a modifies clause changes, of the pre-existing objects, only
	// the listed ones: every other object-indexed array touched in the body is
	// treated as none(array) - kept at the cut and checked at the back edge
	// (objects allocated during the loop may be written freely)
	if spec != nil && spec.HasMod {
		for _, name := range names {
			if _, listed := modObjs[name]; !listed && strings.HasPrefix(x.heapSorts[name], "(Array Ref") && !strings.HasPrefix(name, "G$") {
				modObjs[name] = []Term{}
			}
		}
	}
	for _, name := range names {
		sortS := x.heapSorts[name]
		if sortS == "" {
			continue
		}
		if objs, ok := modObjs[name]; ok && strings.HasPrefix(sortS, "(Array Ref") {
			cur := x.heapGet(st, name, sortS)
			for _, o := range objs {
				fv := x.decls.Fresh("loop."+name, arrayElemSort(sortS))
				cur = Store(cur, o, fv)
			}
			x.heapSet(st, name, cur)
		} else {
			st.heap[name] = x.decls.Fresh("loop."+name, sortS)
			if name == "G$loglen" {
				st.assume(Le(IntLit(0), st.heap[name]))
			}
		}
	}
	if len(rec.heap) > 0 || rec.all {
		// allocation clock may have advanced
		n := x.decls.Fresh("now", "Int")
		st.assume(Le(st.now, n))
		st.now = n
	}
	fr.loopEntryHeap[li.ord] = copyHeap(st.heap)
	if st.ghostLoc == nil {
		st.ghostLoc = map[string]Value{}
	}
	st.ghostLoc[fmt.Sprintf("$loopnow.%d.%d", fi, li.ord)] = Value{T: st.now}
	fr.loopsOn[li.header] = true
	// 4. assume invariants
	if spec != nil {
		for _, inv := range spec.Invariants {
			env := x.envFor(st, fi, true)
			env.loopHdr, env.outer1 = li.header, x.enclosingFrame(st, fi)+1
			if t, ok := x.evalClause(st, env, inv); ok {
				st.assume(t)
			}
		}
		if spec.Decreases != nil {
			env := x.envFor(st, fi, true)
			env.loopHdr, env.outer1 = li.header, x.enclosingFrame(st, fi)+1
			func() {
				defer func() {
					if r := recover(); r != nil {
						x.errorf("decreases: %v", r)
					}
				}()
				v := env.EvalText(spec.Decreases.Text)
				if st.ghostLoc == nil {
					st.ghostLoc = map[string]Value{}
				}
				st.ghostLoc[fmt.Sprintf("$dec.%d.%d", fi, li.ord)] = v
			}()
		}
		if x.muted == 0 && fi == 0 {
			x.reach(st, anchor+" head")
		}
	}
	if spec == nil && x.muted == 0 && fi == 0 {
		x.loopsNoInv++
	}
	if spec == nil && st.taint == "" {
		st.taint = "no loop contract for " + anchor
	}
	if spec == nil && x.muted == 0 {
		if x.noInvLoops == nil {
			x.noInvLoops = map[string]bool{}
		}
		x.noInvLoops[anchor] = true
	}
	x.loopHeapMods[fmt.Sprintf("%s loop %d", fr.fn.Name(), li.ord)] = names
	// frame obligations are checked at the back edge through modObjs
	if len(modObjs) > 0 {
		if st.ghostLoc == nil {
			st.ghostLoc = map[string]Value{}
		}
	}
	fr.loopMods = cloneLoopMods(fr.loopMods)
	fr.loopMods[li.ord] = modObjs
	// phis at the loop header (NaiveForm: the hidden index of a range over a
	// slice/array/string) take an arbitrary value at an arbitrary iteration.
	ov := map[*ssa.Phi]Value{}
	for k, v := range fr.phiOv {
		ov[k] = v
	}
	for _, in := range li.header.Instrs {
		phi, ok := in.(*ssa.Phi)
		if !ok {
			break
		}
		nv := x.freshValue(st, "loop.phi."+phi.Comment, phi.Type())
		if isRangeIndexPhi(phi) {
			// starts at -1 and only ever grows by one per iteration
			st.assume(Le(IntLit(-1), nv.T))
		}
		ov[phi] = nv
	}
	fr.phiOv = ov
	x.execFrom(st, fi, li.header, 0, from)
}

// isRangeIndexPhi recognises the builder's range-over-slice index:
// phi [entry: -1, back edge: phi + 1].
func isRangeIndexPhi(phi *ssa.Phi) bool {
	if len(phi.Edges) != 2 {
		return false
	}
	var init *ssa.Const
	var step *ssa.BinOp
	for _, e := range phi.Edges {
		switch t := e.(type) {
		case *ssa.Const:
			init = t
		case *ssa.BinOp:
			step = t
		}
	}
	if init == nil || step == nil || init.Value == nil || init.Value.ExactString() != "-1" {
		return false
	}
	if step.Op != token.ADD || step.X != ssa.Value(phi) {
		return false
	}
	c, ok := step.Y.(*ssa.Const)
	return ok && c.Value != nil && c.Value.ExactString() == "1"
}

func cloneLoopMods(m map[int]map[string][]Term) map[int]map[string][]Term {
	n := map[int]map[string][]Term{}
	for k, v := range m {
		n[k] = v
	}
	return n
}

func (x *Exec) loopBackEdge(st *State, fi int, li *loopInfo) {
	fr := st.frames[fi]
	spec := x.loopSpec(st, fi, fr, li)
	anchor := fmt.Sprintf("loop %d", li.ord)
	if fi > 0 {
		anchor = fmt.Sprintf("%s loop %d", fr.fn.Name(), li.ord)
	}
	if spec == nil {
		return
	}
	for _, inv := range spec.Invariants {
		env := x.envFor(st, fi, true)
		env.loopHdr, env.outer1 = li.header, x.enclosingFrame(st, fi)+1
		if t, ok := x.evalClause(st, env, inv); ok {
			x.oblige(st, "inv.preserve", inv.Label, anchor, t, li.header.Instrs[0].Pos())
		}
	}
	if spec.Decreases != nil {
		if d0, ok := st.ghostLoc[fmt.Sprintf("$dec.%d.%d", fi, li.ord)]; ok {
			env := x.envFor(st, fi, true)
			env.loopHdr, env.outer1 = li.header, x.enclosingFrame(st, fi)+1
			func() {
				defer func() {
					if r := recover(); r != nil {
						x.errorf("decreases: %v", r)
					}
				}()
				d1 := env.EvalText(spec.Decreases.Text)
				x.oblige(st, "decreases", spec.Decreases.Label, anchor, And(Le(IntLit(0), d0.T), Lt(d1.T, d0.T)), li.header.Instrs[0].Pos())
			}()
		}
	}
	// frame: objects outside the loop's modifies clause are unchanged
	if mods := fr.loopMods[li.ord]; len(mods) > 0 {
		entry := fr.loopEntryHeap[li.ord]
		for _, name := range sortedKeys(mods) {
			objs := mods[name]
			sortS := x.heapSorts[name]
			cur := x.heapGet(st, name, sortS)
			start, ok := entry[name]
			if !ok || cur.S == start.S {
				continue
			}
			if objs == nil || !strings.HasPrefix(sortS, "(Array Ref") {
				continue // the whole variable (a ghost, or a whole array) is in the clause
			}
			var ds []string
			for _, o := range objs {
				ds = append(ds, fmt.Sprintf("(distinct ?r %s)", o.S))
			}
			// objects allocated during the loop may be written freely
			if ln, ok := st.ghostLoc[fmt.Sprintf("$loopnow.%d.%d", fi, li.ord)]; ok {
				ds = append(ds, fmt.Sprintf("(< (atime ?r) %s)", ln.T.S))
			}
			goal := Term{fmt.Sprintf("(forall ((?r Ref)) (! (=> (and true %s) (= (select %s ?r) (select %s ?r))) :pattern ((select %s ?r))))", strings.Join(ds, " "), cur.S, start.S, cur.S), "Bool"}
			x.oblige(st, "loop.frame", name, anchor, goal, li.header.Instrs[0].Pos())
		}
	}
}

// resolveModifies evaluates one modifies item into (heap array -> objects).
// Forms: x.f | x.* | elements(s) | mapof(m) | ghostname | heap
func (x *Exec) resolveModifies(st *State, env *Env, item string, out map[string][]Term, where string) {
	defer func() {
		if r := recover(); r != nil {
			if se, ok := r.(specError); ok {
				x.errorf("%s: %s", where, se.msg)
				return
			}
			panic(r)
		}
	}()
	env.where = where
	item = strings.TrimSpace(item)
	switch {
	case item == "heap" || item == "nothing":
		return
	case strings.HasPrefix(item, "none(") && strings.HasSuffix(item, ")"):
		// none(<heap array>): the array is named by the clause with no object
		// allowed to change (loop clauses: iterations leave it untouched)
		name := strings.TrimSpace(item[len("none(") : len(item)-1])
		if _, ok := out[name]; !ok {
			out[name] = []Term{}
		}
	case strings.HasPrefix(item, "elements(") && strings.HasSuffix(item, ")"):
		v := env.EvalText(item[len("elements(") : len(item)-1])
		et := elemTypeOf(v.Typ)
		if et == nil {
			env.fail("elements() of non-slice")
		}
		name := x.elemHeapName(x.sortOf(et))
		x.heapSorts[name] = ArraySort("Ref", ArraySort("Int", x.sortOf(et)))
		out[name] = append(out[name], sArr(v.T))
	case strings.HasPrefix(item, "mapof(") && strings.HasSuffix(item, ")"):
		v := env.EvalText(item[len("mapof(") : len(item)-1])
		mt, ok := underMap(v.Typ)
		if !ok {
			env.fail("mapof() of non-map")
		}
		x.mapArrs(st, env.heap, env.epoch, mt)
		dn, vn, cn := x.mapNames(mt)
		out[dn] = append(out[dn], v.T)
		out[vn] = append(out[vn], v.T)
		out[cn] = append(out[cn], v.T)
	default:
		if _, ok := x.ghostVars[item]; ok {
			out["G$"+item] = nil
			return
		}
		j := strings.LastIndex(item, ".")
		if j < 0 {
			env.fail("bad modifies item %q", item)
		}
		base := env.EvalText(item[:j])
		field := item[j+1:]
		p, ok := base.Typ.Underlying().(*types.Pointer)
		if !ok {
			env.fail("modifies base %q is not a pointer", item[:j])
		}
		s, ok := structOf(p.Elem())
		if !ok {
			env.fail("modifies base %q is not a struct pointer", item[:j])
		}
		var paths [][]int
		if field == "*" {
			x.leaves(p.Elem(), nil, &paths)
		} else {
			fp := findField(s, field)
			if fp == nil {
				env.fail("no field %s", field)
			}
			_, ft := x.fieldHeapName(p.Elem(), fp)
			var sub [][]int
			x.leaves(ft, nil, &sub)
			if _, isS := structOf(ft); !isS || x.isOpaqueStruct(ft) {
				paths = [][]int{fp}
			} else {
				for _, sp := range sub {
					paths = append(paths, append(append([]int(nil), fp...), sp...))
				}
			}
		}
		for _, pth := range paths {
			name, ft := x.fieldHeapName(p.Elem(), pth)
			x.heapSorts[name] = ArraySort("Ref", x.sortOf(ft))
			out[name] = append(out[name], base.T)
			// sync/atomic box types keep their value in a companion array
			if n, ok := types.Unalias(ft).(*types.Named); ok && n.Obj().Pkg() != nil && n.Obj().Pkg().Path() == "sync/atomic" {
				x.heapSorts[name+"$v"] = ArraySort("Ref", "Int")
				out[name+"$v"] = append(out[name+"$v"], base.T)
			}
		}
	}
}

// havocAll forgets the whole heap except arrays with the given name prefixes.
func (x *Exec) havocAll(st *State, except []string) {
	x.havocAllG(st, except, true)
}

// havocAllG: keepGhost=false also forgets the ghost state (a callee under
// contract WITHOUT a modifies clause may append to the effect log and change
// ghost variables: its ensures clauses say how).
func (x *Exec) havocAllG(st *State, except []string, keepGhost bool) {
	x.recAll(except)
	keep := map[string]Term{}
	// ghost state (effect log, ghost variables) is only ever changed by ghost
	// statements, emits clauses and callees whose contract says so, never by
	// unknown code
	except = append([]string(nil), except...)
	if keepGhost {
		except = append(except, "G$")
	}
	for _, name := range sortedKeys(x.heapSorts) {
		for _, p := range except {
			if strings.HasPrefix(name, p) {
				keep[name] = x.heapGet(st, name, x.heapSorts[name])
			}
		}
	}
	prev := st.epoch
	st.epoch = x.nextEpoch()
	// arrays kept across this havoc but not touched yet resolve to their
	// pre-havoc version (see heapInit)
	x.epochPrev[st.epoch] = prev
	x.epochKeep[st.epoch] = except
	st.heap = keep
	n := x.decls.Fresh("now", "Int")
	st.assume(Le(st.now, n))
	st.now = n
}

func (x *Exec) nextEpoch() int {
	x.epochN++
	return x.epochN
}

// ---------------------------------------------------------------------------

func (x *Exec) val(st *State, fi int, v ssa.Value) Value {
	fr := st.frames[fi]
	switch t := v.(type) {
	case *ssa.Const:
		return x.constValue(t)
	case *ssa.Function:
		return Value{Fn: &FnVal{Fn: t}, Typ: t.Type()}
	case *ssa.Global:
		c := x.w.globalCell(x, t)
		return Value{Loc: &Loc{Cell: c}, Typ: t.Type()}
	case *ssa.FreeVar:
		for i, fv := range fr.fn.FreeVars {
			if fv == t {
				if i < len(fr.bind) {
					return fr.bind[i]
				}
			}
		}
		x.errorf("unbound free variable %s in %s", t.Name(), fr.fn)
		return x.freshValue(st, "freevar."+t.Name(), t.Type())
	case *ssa.Builtin:
		return Value{}
	}
	if r, ok := fr.regs[v]; ok {
		return r
	}
	x.errorf("internal: no value for %s (%T) in %s", v.Name(), v, fr.fn)
	return x.freshValue(st, "undef."+v.Name(), v.Type())
}

func (x *Exec) constValue(c *ssa.Const) Value {
	t := c.Type()
	if c.Value == nil {
		if _, ok := t.(*types.TypeParam); ok {
			return Value{T: x.zero(t), Typ: t}
		}
		return Value{T: x.zero(t), Typ: t}
	}
	switch c.Value.Kind() {
	case constant.Int:
		return Value{T: IntLitS(c.Value.ExactString()), Typ: t}
	case constant.Bool:
		return Value{T: BoolLit(constant.BoolVal(c.Value)), Typ: t}
	case constant.String:
		return Value{T: x.strLit(constant.StringVal(c.Value)), Typ: t}
	case constant.Float:
		if x.sortOf(t) == "Int" {
			return Value{T: IntLitS(strings.Split(c.Value.ExactString(), "/")[0]), Typ: t}
		}
		return Value{T: x.decls.Fresh("float", "Real"), Typ: t}
	}
	return Value{T: x.decls.Fresh("const", x.sortOf(t)), Typ: t}
}

func (x *Exec) nilCheck(st *State, ref Term, what string, pos token.Pos) {
	x.oblige(st, "nil", what, "", Not(Eq(ref, NullT)), pos)
}

func exprText(v ssa.Value) string {
	// a readable description of an SSA value for obligation labels
	switch t := v.(type) {
	case *ssa.UnOp:
		if t.Op == token.MUL {
			return exprText(t.X)
		}
	case *ssa.FieldAddr:
		s := t.X.Type().Underlying().(*types.Pointer).Elem().Underlying().(*types.Struct)
		return exprText(t.X) + "." + s.Field(t.Field).Name()
	case *ssa.Field:
		s := t.X.Type().Underlying().(*types.Struct)
		return exprText(t.X) + "." + s.Field(t.Field).Name()
	case *ssa.IndexAddr:
		return exprText(t.X) + "[" + exprText(t.Index) + "]"
	case *ssa.Alloc:
		if t.Comment != "" {
			return t.Comment
		}
	case *ssa.Parameter:
		return t.Name()
	case *ssa.FreeVar:
		return t.Name()
	case *ssa.Const:
		return t.Value.String()
	case *ssa.Call:
		if f := t.Call.StaticCallee(); f != nil {
			return f.Name() + "()"
		}
		if t.Call.IsInvoke() {
			return exprText(t.Call.Value) + "." + t.Call.Method.Name() + "()"
		}
	case *ssa.Extract:
		return exprText(t.Tuple)
	case *ssa.Lookup:
		return exprText(t.X) + "[" + exprText(t.Index) + "]"
	case *ssa.Next:
		return "range"
	}
	return v.Name()
}

func (x *Exec) execFrom(st *State, fi int, b *ssa.BasicBlock, idx int, from *ssa.BasicBlock) {
	for i := idx; i < len(b.Instrs); i++ {
		if st.dead {
			return
		}
		fr := st.frames[fi]
		switch in := b.Instrs[i].(type) {
		case *ssa.Call:
			next := i + 1
			x.doCall(st, fi, &in.Call, in, func(st2 *State, res Value) {
				st2.frames[fi].regs[in] = res
				x.execFrom(st2, fi, b, next, from)
			})
			return
		case *ssa.Defer:
			d := deferred{call: &in.Call, site: in}
			for _, a := range in.Call.Args {
				d.args = append(d.args, x.val(st, fi, a))
			}
			if !in.Call.IsInvoke() {
				d.fn = x.val(st, fi, in.Call.Value)
			} else {
				d.fn = x.val(st, fi, in.Call.Value)
			}
			fr.defers = append(fr.defers, d)
		case *ssa.RunDefers:
			next := i + 1
			x.runDefers(st, fi, func(st2 *State) {
				if st2.panicking != nil {
					x.unwound(st2, fi)
					return
				}
				x.execFrom(st2, fi, b, next, from)
			})
			return
		case *ssa.Go:
			x.doGo(st, fi, in)
		case *ssa.If:
			c := x.val(st, fi, in.Cond).T
			switch c.S {
			case "true":
				x.execBlock(st, fi, b.Succs[0], b)
			case "false":
				x.execBlock(st, fi, b.Succs[1], b)
			default:
				x.npaths++
				if x.npaths > x.maxPaths {
					x.errorf("path limit exceeded in %s", x.fnName)
					return
				}
				st2 := st.clone()
				st.assume(c)
				st2.assume(Not(c))
				if x.feasible(st) {
					x.execBlock(st, fi, b.Succs[0], b)
				}
				if x.feasible(st2) {
					x.execBlock(st2, fi, b.Succs[1], b)
				}
			}
			return
		case *ssa.Jump:
			x.execBlock(st, fi, b.Succs[0], b)
			return
		case *ssa.Return:
			var res []Value
			for _, r := range in.Results {
				res = append(res, x.val(st, fi, r))
			}
			x.doReturn(st, fi, res, in)
			return
		case *ssa.Panic:
			pv := x.val(st, fi, in.X)
			x.raise(st, fi, pv, "explicit panic")
			return
		default:
			x.step(st, fi, b.Instrs[i], from)
		}
	}
}

func (x *Exec) doReturn(st *State, fi int, res []Value, in ssa.Instruction) {
	fr := st.frames[fi]
	fr.retIdx++
	if in != nil {
		extra := map[string]Value{}
		for i, r := range res {
			extra[fmt.Sprintf("result%d", i)] = r
		}
		if len(res) == 1 {
			extra["result"] = res[0]
		}
		x.ghostAtX(st, fi, fmt.Sprintf("return#%d", x.returnOrdinal(fr.fn, in)), "", nil, extra)
	}
	st.frames = st.frames[:fi]
	fr.ret(st, res)
}

func (x *Exec) returnOrdinal(fn *ssa.Function, in ssa.Instruction) int {
	n := 0
	for _, b := range fn.Blocks {
		for _, i := range b.Instrs {
			if _, ok := i.(*ssa.Return); ok {
				n++
				if i == in {
					return n
				}
			}
		}
	}
	return 0
}

// feasible does a cheap syntactic check only; infeasible paths are harmless
// (their obligations are vacuous) but cost time.
func (x *Exec) feasible(st *State) bool {
	if st.dead {
		return false
	}
	if x.prune && len(st.pc) > 0 {
		st.nforks++
		return x.quickSat(st)
	}
	return true
}

// raise starts unwinding frame fi with panic value pv.
func (x *Exec) raise(st *State, fi int, pv Value, why string) {
	st.frames = st.frames[:fi+1]
	v := pv
	if v.T.Sort != "Iface" && v.Typ != nil {
		v = Value{T: x.makeIface(v.T, v.Typ), Typ: types.Universe.Lookup("any").Type()}
	}
	st.panicking = &v
	st.trace = append(st.trace, "panic:"+why)
	x.runDefers(st, fi, func(st2 *State) { x.unwound(st2, fi) })
}

// unwound is called when all deferred calls of frame fi ran after a panic.
func (x *Exec) unwound(st *State, fi int) {
	fr := st.frames[fi]
	if st.panicking == nil {
		// recovered: the function returns normally through its Recover block
		if fr.fn.Recover != nil {
			x.execBlock(st, fi, fr.fn.Recover, nil)
			return
		}
		var res []Value
		rs := fr.fn.Signature.Results()
		for i := 0; i < rs.Len(); i++ {
			res = append(res, Value{T: x.zero(rs.At(i).Type()), Typ: rs.At(i).Type()})
		}
		st.frames = st.frames[:fi]
		fr.ret(st, res)
		return
	}
	st.frames = st.frames[:fi]
	fr.pan(st)
}

func (x *Exec) runDefers(st *State, fi int, k func(*State)) {
	fr := st.frames[fi]
	if len(fr.defers) == 0 {
		k(st)
		return
	}
	d := fr.defers[len(fr.defers)-1]
	fr.defers = fr.defers[:len(fr.defers)-1]
	x.doCallWith(st, fi, d.call, d.site, d.args, d.fn, true, func(st2 *State, _ Value) {
		x.runDefers(st2, fi, k)
	})
}
