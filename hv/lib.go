package main

// Trusted models of library functions and the lock-invariant mode.

import (
	"fmt"
	"go/types"
	"strings"

	"golang.org/x/tools/go/ssa"
)

// pure library functions: fresh result, no heap effect, no panic.
var libPure = map[string]bool{
	"time.Now": true, "time.Sleep": true, "runtime.Gosched": true, "runtime/debug.Stack": true,
	"strconv.Itoa": true, "errors.Is": true, "errors.New": true, "fmt.Sprintf": true, "fmt.Errorf": true, "fmt.Fprintf": true, "fmt.Fprint": true,
	"context.Background": true, "reflect.TypeOf": true, "(time.Time).Add": true, "strings.Split": true,
	"bytes.NewReader": true, "bytes.NewBuffer": true, "(*bytes.Buffer).Bytes": true,
	"(*sync.WaitGroup).Add": true, "(*sync.WaitGroup).Done": true, "(*sync.WaitGroup).Wait": true,
	"github.com/DataDog/gostackparse.Parse": true,
	"google.golang.org/protobuf/proto.MessageName": true,
	"golang.org/x/exp/maps.Clear": false,
}

func (x *Exec) libCall(st *State, fi int, full string, callee *ssa.Function, args []Value, site ssa.Instruction, anchor string, k func(*State, Value), pan func(*State)) bool {
	sig := callee.Signature
	var resT types.Type
	switch sig.Results().Len() {
	case 0:
	case 1:
		resT = sig.Results().At(0).Type()
	default:
		resT = sig.Results()
	}
	fresh := func(hint string) Value {
		if resT == nil {
			return Value{}
		}
		return x.freshValue(st, hint, resT)
	}
	pos := site.Pos()
	switch full {
	case "(*sync.Mutex).Lock", "(*sync.RWMutex).Lock":
		x.lock(st, fi, args[0], "W", site)
		k(st, Value{})
		return true
	case "(*sync.RWMutex).RLock":
		x.lock(st, fi, args[0], "R", site)
		k(st, Value{})
		return true
	case "(*sync.Mutex).Unlock", "(*sync.RWMutex).Unlock", "(*sync.RWMutex).RUnlock":
		x.unlock(st, fi, args[0], site)
		k(st, Value{})
		return true
	case "sync/atomic.AddInt64", "sync/atomic.AddInt32":
		l := args[0].Loc
		if l == nil {
			x.errorf("atomic.Add on non-location")
			k(st, fresh("atomic"))
			return true
		}
		x.atomicStep(st, fi, site, anchor, func() Value {
			for _, n := range x.locHeapNames(l) {
				x.guardCheck(st, n, true, true, pos)
				x.recHeap(n)
			}
			cur := x.loadLoc(st, l, nil, "")
			nv := Value{T: Add(cur.T, args[1].T), Typ: cur.Typ}
			x.storeLoc(st, l, nv)
			x.atomicInv(st, fi, l, false, site)
			return nv
		}, k)
		return true
	case "sync/atomic.LoadInt64", "sync/atomic.LoadInt32":
		l := args[0].Loc
		if l == nil {
			k(st, fresh("atomic"))
			return true
		}
		x.atomicStep(st, fi, site, anchor, func() Value {
			for _, n := range x.locHeapNames(l) {
				x.guardCheck(st, n, false, true, pos)
			}
			v := x.loadLoc(st, l, nil, "")
			st.assume(x.wellTyped(st, v.T, v.Typ))
			x.atomicInv(st, fi, l, true, site)
			return v
		}, k)
		return true
	case "sync/atomic.StoreInt32", "sync/atomic.StoreInt64":
		l := args[0].Loc
		x.atomicStep(st, fi, site, anchor, func() Value {
			for _, n := range x.locHeapNames(l) {
				x.recHeap(n)
			}
			x.storeLoc(st, l, args[1])
			return Value{}
		}, k)
		return true
	case "sync/atomic.SwapInt32", "sync/atomic.SwapInt64":
		l := args[0].Loc
		x.atomicStep(st, fi, site, anchor, func() Value {
			for _, n := range x.locHeapNames(l) {
				x.recHeap(n)
			}
			old := x.loadLoc(st, l, nil, "")
			x.storeLoc(st, l, args[1])
			return old
		}, k)
		return true
	case "sync/atomic.CompareAndSwapInt32", "sync/atomic.CompareAndSwapInt64":
		l := args[0].Loc
		x.atomicStep(st, fi, site, anchor, func() Value {
			for _, n := range x.locHeapNames(l) {
				x.recHeap(n)
			}
			old := x.loadLoc(st, l, nil, "")
			ok := x.decls.Fresh("cas.ok", "Bool")
			st.assume(Eq(ok, Eq(old.T, args[1].T)))
			x.storeLoc(st, l, Value{T: Ite(ok, args[2].T, old.T), Typ: old.Typ})
			return Value{T: ok, Typ: types.Typ[types.Bool]}
		}, k)
		return true
	case "(*sync/atomic.Uint32).Load":
		k(st, x.atomicBox(st, args[0], nil))
		return true
	case "(*sync/atomic.Uint32).Store":
		x.atomicBox(st, args[0], &args[1])
		k(st, Value{})
		return true
	case "context.WithCancel", "context.WithTimeout", "context.WithDeadline":
		tup := sig.Results()
		ctx := x.freshValue(st, "ctx", tup.At(0).Type())
		st.assume(Not(Eq(iTag(ctx.T), IntLit(0))))
		cancel := x.freshRef(st, "cancelfunc")
		x.isCancel[cancel.S] = true
		// the cancel func belongs to the derived context
		x.decls.Fun("ctxcancel", []string{"Iface"}, "Ref")
		st.assume(Eq(cancel, App("ctxcancel", "Ref", ctx.T)))
		k(st, Value{Tup: []Value{ctx, {T: cancel, Typ: tup.At(1).Type()}}, Typ: tup})
		return true
	case "context.Background":
		v := fresh("ctx.bg")
		st.assume(Not(Eq(iTag(v.T), IntLit(0))))
		k(st, v)
		return true
	case "math/rand.Intn":
		x.oblige(st, "libpre", "rand.Intn(n) needs n > 0", "", Lt(IntLit(0), args[0].T), pos)
		v := fresh("rand")
		st.assume(And(Le(IntLit(0), v.T), Lt(v.T, args[0].T)))
		k(st, v)
		return true
	case "golang.org/x/exp/maps.Clear":
		// maps.Clear(m): every key removed
		mt, ok := args[0].Typ.Underlying().(*types.Map)
		if !ok {
			if len(callee.TypeArgs()) > 0 {
				mt, ok = callee.TypeArgs()[0].Underlying().(*types.Map)
			}
		}
		if !ok {
			x.errorf("maps.Clear: cannot determine map type")
			k(st, Value{})
			return true
		}
		dom, _, card, ks, _ := x.mapArrs(st, st.heap, st.epoch, mt)
		dn, _, cn := x.mapNames(mt)
		x.recHeap(dn)
		x.recHeap(cn)
		x.heapSet(st, dn, Store(dom, args[0].T, Term{fmt.Sprintf("((as const (Array %s Bool)) false)", ks), ArraySort(ks, "Bool")}))
		x.heapSet(st, cn, Store(card, args[0].T, IntLit(0)))
		k(st, Value{})
		return true
	}
	if strings.HasPrefix(full, "log/slog.") || strings.HasPrefix(full, "(*log/slog.") || strings.HasPrefix(full, "log.") {
		if full == "log.Fatal" || full == "log.Fatalf" {
			st.dead = true
			return true
		}
		k(st, fresh("log"))
		return true
	}
	if full == "golang.org/x/exp/maps.Keys" && len(args) == 1 {
		// maps.Keys(m): some slice that lists exactly the keys of m, each once
		// (len == len(m), every key occurs, every element is a key)
		if mt, ok := underMap(args[0].Typ); ok {
			x.libUsed[full] = true
			st2 := st
			r := x.freshValue(st2, "lib.Keys", types.NewSlice(mt.Key()))
			ks := x.sortOf(mt.Key())
			kq := Term{"?mk", ks}
			j := Term{"?mj", "Int"}
			el := x.loadElem(st2, st2.heap, st2.epoch, mt.Key(), sArr(r.T), sIdx(sOff(r.T), j))
			inRange := And(Le(IntLit(0), j), Lt(j, sLen(r.T)))
			st2.assume(Eq(sLen(r.T), x.mapLen(st2, st2.heap, st2.epoch, args[0].T, mt)))
			st2.assume(Term{fmt.Sprintf("(forall ((?mk %s)) (=> %s (exists ((?mj Int)) %s)))", ks, x.mapHas(st2, st2.heap, st2.epoch, args[0].T, mt, kq).S, And(inRange, Eq(el, kq)).S), "Bool"})
			st2.assume(Term{fmt.Sprintf("(forall ((?mj Int)) (! (=> %s %s) :pattern (%s)))", inRange.S, x.mapHas(st2, st2.heap, st2.epoch, args[0].T, mt, el).S, el.S), "Bool"})
			k(st2, r)
			return true
		}
	}
	if full == "slices.Contains" && len(args) == 2 && args[0].T.Sort == "Slice" {
		// slices.Contains(s, v) == exists j. 0 <= j < len(s) && s[j] == v
		if et := elemTypeOf(args[0].Typ); et != nil {
			x.libUsed[full] = true
			r := x.decls.Fresh("lib.Contains", "Bool")
			j := Term{"?cj", "Int"}
			el := x.loadElem(st, st.heap, st.epoch, et, sArr(args[0].T), sIdx(sOff(args[0].T), j))
			vt := x.valueTerm(args[1])
			body := And(And(Le(IntLit(0), j), Lt(j, sLen(args[0].T))), Eq(el, vt))
			st.assume(Eq(r, Term{fmt.Sprintf("(exists ((?cj Int)) %s)", body.S), "Bool"}))
			k(st, Value{T: r, Typ: types.Typ[types.Bool]})
			return true
		}
	}
	if pure, ok := libPure[full]; ok && pure {
		x.libUsed[full] = true
		v := fresh("lib." + callee.Name())
		if full == "fmt.Errorf" || full == "errors.New" {
			st.assume(Not(Eq(iTag(v.T), IntLit(0)))) // a non-nil error value
		}
		if full == "reflect.TypeOf" && len(args) == 1 {
			// reflect.TypeOf(nil) is the nil Type; every other argument has a type
			st.assume(Eq(Eq(iTag(v.T), IntLit(0)), Eq(iTag(args[0].T), IntLit(0))))
		}
		k(st, v)
		return true
	}
	return false
}

// atomicBox models sync/atomic.Uint32 fields as an Int heap leaf.
func (x *Exec) atomicBox(st *State, recv Value, store *Value) Value {
	l := recv.Loc
	if l == nil || l.Root == nil {
		x.errorf("atomic.Uint32 receiver is not a field location")
		return x.freshValue(st, "atomic", types.Typ[types.Uint32])
	}
	name, _ := x.fieldHeapName(l.Root, l.Path)
	name += "$v"
	arr := x.heapGet(st, name, ArraySort("Ref", "Int"))
	if store != nil {
		x.recHeap(name)
		x.heapSet(st, name, Store(arr, l.Base, store.T))
		return Value{}
	}
	v := Select(arr, l.Base)
	st.assume(Le(IntLit(0), v))
	return Value{T: v, Typ: types.Typ[types.Uint32]}
}

// libInvoke: interface method calls with a fixed library meaning.
func (x *Exec) libInvoke(st *State, fi int, it types.Type, m *types.Func, recv Value, args []Value, site ssa.Instruction) *Value {
	tn := types.TypeString(it, nil)
	sig := m.Type().(*types.Signature)
	var resT types.Type
	switch sig.Results().Len() {
	case 0:
	case 1:
		resT = sig.Results().At(0).Type()
	default:
		resT = sig.Results()
	}
	switch tn + "." + m.Name() {
	case "context.Context.Done":
		// the done channel is a function of the context value
		x.libUsed[tn+"."+m.Name()] = true
		x.decls.Fun("ctxdone", []string{"Iface"}, "Ref")
		v := Value{T: App("ctxdone", "Ref", recv.T), Typ: resT}
		return &v
	}
	switch tn + "." + m.Name() {
	case "context.Context.Err", "error.Error", "context.Context.Value", "context.Context.Deadline",
		"net.Conn.SetDeadline", "net.Conn.Close", "log/slog.EventLogger.Log":
		x.libUsed[tn+"."+m.Name()] = true
		v := Value{}
		if resT != nil {
			v = x.freshValue(st, "lib."+m.Name(), resT)
		}
		return &v
	}
	// a sealed interface of an external package (it has an unexported method,
	// so no repository type implements it): its methods are external code,
	// treated like external functions (no effect on repository heap, no panic
	// on a non-nil receiver)
	if n, ok := types.Unalias(it).(*types.Named); ok && n.Obj().Pkg() != nil && !strings.HasPrefix(n.Obj().Pkg().Path(), modPath) {
		if iface, ok := n.Underlying().(*types.Interface); ok {
			sealed := false
			for i := 0; i < iface.NumMethods(); i++ {
				if !iface.Method(i).Exported() {
					sealed = true
				}
			}
			if sealed {
				x.externals["("+tn+")."+m.Name()+" (sealed external interface)"] = true
				v := Value{}
				if resT != nil {
					v = x.freshValue(st, "ext."+m.Name(), resT)
				}
				return &v
			}
		}
	}
	return nil
}

// ---------------------------------------------------------------------------
// lock-invariant mode

func (x *Exec) guardFor(l *Loc) (*GuardSpec, bool) {
	if l == nil || l.Root == nil || len(l.Path) != 1 {
		return nil, false
	}
	s, ok := structOf(l.Root)
	if !ok {
		return nil, false
	}
	fname := s.Field(l.Path[0]).Name()
	tn := baseTypeName(l.Root)
	for _, g := range x.w.guards {
		if g.Struct == tn && g.Mutex == fname {
			return g, true
		}
	}
	return nil, false
}

func (x *Exec) guardEnv(st *State, fi int, g *GuardSpec, obj Term, root types.Type) *Env {
	env := x.envFor(st, fi, false)
	env.fi = -1
	env.vars = map[string]Value{g.Recv: {T: obj, Typ: types.NewPointer(root)}}
	env.pkg = x.w.typesPkg(x.w.guardPkg[g])
	return env
}

func (x *Exec) lock(st *State, fi int, mu Value, mode string, site ssa.Instruction) {
	g, ok := x.guardFor(mu.Loc)
	if !ok {
		x.locksNoInv[exprText(site.(*ssa.Call).Call.Args[0])] = true
		return
	}
	l := mu.Loc
	for _, h := range st.locks {
		if h.guard == g && h.obj.S == l.Base.S {
			x.oblige(st, "lock", "double-acquire "+g.Struct+"."+g.Mutex, "", FalseT, site.Pos())
		}
	}
	x.havocFootprint(st, fi, g, l.Base, l.Root)
	st.locks = append(st.locks, lockHeld{guard: g, obj: l.Base, mode: mode, snap: copyHeap(st.heap), snapEpoch: st.epoch})
	// old() now refers to the state at acquisition
	st.oldHeap = copyHeap(st.heap)
	st.oldEpoch = st.epoch
	st.oldNow = st.now
	if x.muted == 0 && fi == 0 {
		x.reach(st, fmt.Sprintf("after %s.Lock", g.Struct))
	}
}

// havocFootprint forgets the state protected by guard g of object obj (other
// threads may have changed it) and assumes the lock invariant.
func (x *Exec) havocFootprint(st *State, fi int, g *GuardSpec, obj Term, root types.Type) {
	for _, item := range g.Footprint {
		env := x.guardEnv(st, fi, g, obj, root)
		mods := map[string][]Term{}
		x.resolveModifies(st, env, item, mods, "footprint of "+g.Struct)
		for _, name := range sortedKeys(mods) {
			sortS := x.heapSorts[name]
			x.recHeap(name)
			cur := x.heapGet(st, name, sortS)
			for _, o := range mods[name] {
				cur = Store(cur, o, x.decls.Fresh("locked."+name, arrayElemSort(sortS)))
				if st.lockHavoc == nil {
					st.lockHavoc = map[string][]Term{}
				}
				st.lockHavoc[name] = append(st.lockHavoc[name], o)
			}
			x.heapSet(st, name, cur)
		}
	}
	n := x.decls.Fresh("now", "Int")
	st.assume(Le(st.now, n))
	st.now = n
	// assume the invariant and the type invariants of the footprint
	for _, inv := range g.Inv {
		env := x.guardEnv(st, fi, g, obj, root)
		if t, ok := x.evalClause(st, env, inv); ok {
			st.assume(t)
		}
	}
}

// calleeGuard: a method of a guarded struct (other than a constructor) is
// assumed to take the struct's lock: at a call site the protected state is
// unknown (another thread may have changed it since the caller last saw it).
func (x *Exec) calleeGuard(ct *Contract, callee *ssa.Function) (*GuardSpec, types.Type) {
	if callee == nil || ct.Constructs || callee.Signature.Recv() == nil {
		return nil, nil
	}
	rt := callee.Signature.Recv().Type()
	p, ok := rt.Underlying().(*types.Pointer)
	if !ok {
		return nil, nil
	}
	tn := baseTypeName(p.Elem())
	for _, g := range x.w.guards {
		if g.Struct == tn && x.w.guardPkg[g] == ct.Pkg {
			return g, p.Elem()
		}
	}
	return nil, nil
}

func (x *Exec) unlock(st *State, fi int, mu Value, site ssa.Instruction) {
	g, ok := x.guardFor(mu.Loc)
	if !ok {
		return
	}
	l := mu.Loc
	idx := -1
	for i, h := range st.locks {
		if h.guard == g && h.obj.S == l.Base.S {
			idx = i
		}
	}
	if idx < 0 {
		x.oblige(st, "lock", "unlock of unheld "+g.Struct+"."+g.Mutex, "", FalseT, site.Pos())
		return
	}
	held := st.locks[idx]
	fr := st.frames[0]
	fr.unlockIdx++
	anchor := fmt.Sprintf("unlock#%d", x.unlockOrdinal(st, fi, site))
	for _, inv := range g.Inv {
		env := x.guardEnv(st, fi, g, l.Base, l.Root)
		if t, ok := x.evalClause(st, env, inv); ok {
			x.oblige(st, "lockinv", inv.Label, anchor, t, site.Pos())
		}
	}
	if held.mode == "R" {
		// read sections leave the footprint unchanged
		for _, item := range g.Footprint {
			env := x.guardEnv(st, fi, g, l.Base, l.Root)
			env.heap, env.epoch = held.snap, held.snapEpoch
			mods := map[string][]Term{}
			x.resolveModifies(st, env, item, mods, "footprint")
			for _, name := range sortedKeys(mods) {
				sortS := x.heapSorts[name]
				cur := x.heapGet(st, name, sortS)
				was := x.heapGetIn(held.snap, held.snapEpoch, name, sortS)
				if cur.S == was.S {
					continue
				}
				for _, o := range mods[name] {
					x.oblige(st, "rlock.readonly", name, anchor, Eq(Select(cur, o), Select(was, o)), site.Pos())
				}
			}
		}
	}
	// atomic-transition clauses of the function under verification
	if c := st.frames[0].contract; c != nil && fi == 0 {
		for _, cl := range c.AtUnlock {
			env := x.envFor(st, 0, false)
			env.old, env.oldEpoch, env.oldNow = held.snap, held.snapEpoch, st.oldNow
			x.bindNamedResults(st, env)
			if t, ok := x.evalClause(st, env, cl); ok {
				x.oblige(st, "atunlock", cl.Label, anchor, t, site.Pos())
			}
		}
	}
	st.locks = append(st.locks[:idx:idx], st.locks[idx+1:]...)
}

func (x *Exec) unlockOrdinal(st *State, fi int, site ssa.Instruction) int {
	fn := st.frames[fi].fn
	n := 0
	for _, b := range fn.Blocks {
		for _, i := range b.Instrs {
			var cc *ssa.CallCommon
			switch t := i.(type) {
			case *ssa.Call:
				cc = &t.Call
			case *ssa.Defer:
				cc = &t.Call
			}
			if cc == nil {
				continue
			}
			if f := cc.StaticCallee(); f != nil && (strings.HasSuffix(f.Name(), "Unlock")) {
				n++
				if i == site {
					return n
				}
			}
		}
	}
	return 0
}

// bindNamedResults exposes current values of named result cells / locals.
func (x *Exec) bindNamedResults(st *State, env *Env) {
	env.useCells = true
}

// atomicInv: invariants over atomically accessed fields that hold at every
// instant (checked after each atomic write, assumed at each atomic read).
func (x *Exec) atomicInv(st *State, fi int, l *Loc, assume bool, site ssa.Instruction) {
	if l == nil || l.Root == nil {
		return
	}
	tn := baseTypeName(l.Root)
	for _, g := range x.w.guards {
		if g.Struct != tn {
			continue
		}
		for _, inv := range g.AtomicInv {
			env := x.guardEnv(st, fi, g, l.Base, l.Root)
			if t, ok := x.evalClause(st, env, inv); ok {
				if assume {
					st.assume(t)
				} else {
					x.oblige(st, "atomicinv", inv.Label, "", t, site.Pos())
				}
			}
		}
	}
}

func baseTypeName(t types.Type) string {
	t = types.Unalias(t)
	if n, ok := t.(*types.Named); ok {
		return n.Obj().Name()
	}
	return types.TypeString(t, nil)
}
