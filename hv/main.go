package main

import (
	"golang.org/x/tools/go/ssa"
	"flag"
	"fmt"
	"os"
	"strings"
)

func main() {
	if len(os.Args) < 2 {
		fmt.Fprintln(os.Stderr, "usage: hv <check|func|selftest|replay> ...")
		os.Exit(2)
	}
	switch os.Args[1] {
	case "func":
		cmdFunc(os.Args[2:])
	case "check":
		cmdCheck(os.Args[2:])
	case "selftest":
		cmdSelftest(os.Args[2:])
	case "anchortest":
		cmdAnchorTest(os.Args[2:])
	case "replay":
		cmdReplay(os.Args[2:])
	default:
		fmt.Fprintln(os.Stderr, "unknown command")
		os.Exit(2)
	}
}

// hv func <rel> <key> : verify one function, print obligations (developer tool)
func cmdFunc(args []string) {
	fs := flag.NewFlagSet("func", flag.ExitOnError)
	repo := fs.String("repo", "/repo", "")
	verif := fs.String("verif", "/verif", "")
	dump := fs.String("dump", "", "write failing queries to this dir")
	verbose := fs.Bool("v", false, "")
	dumpAll := fs.String("dumpq", "", "write the query of the obligation whose name contains this to /tmp/hvdump/q.smt2")
	mut := fs.String("mut", "", "apply mutant <prop>:<name> from /verif/mutants (in memory)")
	tmo := fs.Int("t", 10, "solver timeout (s)")
	fs.BoolVar(&debugPanics, "panic", false, "")
	fs.Parse(args)
	rel, key := fs.Arg(0), fs.Arg(1)
	var overlay map[string][]byte
	if *mut != "" {
		parts := strings.SplitN(*mut, ":", 2)
		for _, m := range loadMutants(*verif, parts[0]) {
			if len(parts) == 2 && m.Name == parts[1] {
				path := *repo + "/" + m.File
				src, _ := os.ReadFile(path)
				if strings.Count(string(src), m.Old) != 1 {
					fmt.Fprintln(os.Stderr, "mutant does not apply")
					os.Exit(2)
				}
				overlay = map[string][]byte{path: []byte(strings.Replace(string(src), m.Old, m.New, 1))}
			}
		}
		if overlay == nil {
			fmt.Fprintln(os.Stderr, "no such mutant")
			os.Exit(2)
		}
	}
	w, err := LoadWorld(*repo, *verif, []string{rel}, overlay)
	if err != nil {
		fmt.Fprintln(os.Stderr, err)
		os.Exit(2)
	}
	cf := w.contracts[rel]
	if cf == nil {
		fmt.Fprintln(os.Stderr, "no contracts for", rel)
		os.Exit(2)
	}
	var keys []string
	if key == "" || key == "all" {
		keys = sortedKeys(cf.Funcs)
	} else {
		keys = []string{key}
	}
	bad := 0
	for _, k := range keys {
		c := cf.Funcs[k]
		var fn *ssa.Function
		if c == nil {
			// an implementation checked against an interface contract?
			for _, ak := range sortedKeys(cf.Funcs) {
				ac := cf.Funcs[ak]
				if !ac.Abstract || !ac.Impls {
					continue
				}
				impls, _, _ := w.implementations(ac)
				for _, im := range impls {
					if ipkg, ikey := contractKey(im); ikey == k {
						cc := *ac
						cc.Pkg, cc.Key, cc.Abstract, cc.Impls = ipkg, ikey, false, false
						cc.Aliases = append([]string{"self"}, ac.ParamNames...)
						c, fn = &cc, im
					}
				}
			}
		}
		if c == nil {
			fmt.Fprintln(os.Stderr, "no contract", k)
			os.Exit(2)
		}
		if c.Abstract || c.Trusted || (c.Inline && len(keys) > 1) {
			continue
		}
		if fn == nil {
			fn = w.findFunc(rel, k)
		}
		if fn == nil {
			fmt.Fprintln(os.Stderr, "no function", k)
			bad++
			continue
		}
		rep := VerifyFunc(w, rel, c, fn)
		Discharge(rep.Obls, *tmo, false, 16)
		fmt.Println(rep.String())
		for _, e := range rep.Errors {
			fmt.Println("  ERROR:", e)
			bad++
		}
		for _, e := range rep.Warnings {
			fmt.Println("  warn:", e)
		}
		for _, s := range Summarize(rep.Obls) {
			status := "ok"
			if len(s.Failed) > 0 {
				status = "FAIL(" + s.Failed[0].Result.Status + ")"
				bad++
			}
			if *verbose || len(s.Failed) > 0 {
				fmt.Printf("  %-8s %s  x%d %.2fs %s\n", status, s.Name, s.Instances, s.Secs, s.Solver)
			}
			if *dumpAll != "" && strings.Contains(s.Name, *dumpAll) {
				os.MkdirAll("/tmp/hvdump", 0o755)
				n := 0
				for _, ob := range rep.Obls {
					if ob.Name == s.Name {
						os.WriteFile(fmt.Sprintf("/tmp/hvdump/q%d.smt2", n), []byte(ob.Query), 0o644)
						os.WriteFile("/tmp/hvdump/q.smt2", []byte(ob.Query), 0o644)
						n++
					}
				}
			}
			if len(s.Failed) > 0 && *dump != "" {
				os.MkdirAll(*dump, 0o755)
				f := *dump + "/" + strings.NewReplacer("/", "_", " ", "_", "(", "", ")", "", "*", "").Replace(s.Name) + ".smt2"
				os.WriteFile(f, []byte(s.Failed[0].Query), 0o644)
				os.WriteFile(f+".out", []byte(strings.Join(s.Failed[0].Trace, " ")+"\n"+s.Failed[0].Result.Output), 0o644)
			}
		}
	}
	if bad > 0 {
		os.Exit(1)
	}
}

// hv anchortest <rel>... : for every ghost statement of the form
// "ghost at call F#k before: assert ..." the call is skipped (as if the line had
// been deleted from the source) and the function is verified again: some
// obligation other than the now unreachable anchor has to fail, otherwise the
// contract would not notice that the call went missing (a must-happen effect
// stated only as an assertion at the call needs a matching ensures).
func cmdAnchorTest(args []string) {
	fs := flag.NewFlagSet("anchortest", flag.ExitOnError)
	repo := fs.String("repo", "/repo", "")
	verif := fs.String("verif", "/verif", "")
	tmo := fs.Int("t", 8, "solver timeout (s)")
	fs.Parse(args)
	holes := 0
	for _, rel := range fs.Args() {
		w, err := LoadWorld(*repo, *verif, []string{rel}, nil)
		if err != nil {
			fmt.Fprintln(os.Stderr, err)
			os.Exit(2)
		}
		cf := w.contracts[rel]
		for _, k := range sortedKeys(cf.Funcs) {
			c := cf.Funcs[k]
			if c.Abstract || c.Trusted || c.Inline {
				continue
			}
			seen := map[string]bool{}
			for _, g := range c.Ghosts {
				if !strings.HasPrefix(g.Anchor, "call ") || !strings.Contains(g.Anchor, "#") || seen[g.Anchor] {
					continue
				}
				seen[g.Anchor] = true
				fn := w.findFunc(rel, k)
				if fn == nil {
					continue
				}
				skipCallAnchor = g.Anchor
				rep := VerifyFunc(w, rel, c, fn)
				skipCallAnchor = ""
				Discharge(rep.Obls, *tmo, false, 16)
				var failed []string
				for _, s := range Summarize(rep.Obls) {
					if len(s.Failed) > 0 && s.Kind != "reach" && !strings.Contains(s.Label, "@") {
						failed = append(failed, s.Name[strings.Index(s.Name, "#")+1:])
					}
				}
				if len(failed) == 0 {
					holes++
					fmt.Printf("HOLE   %s.%s: deleting %q goes unnoticed\n", rel, k, g.Anchor)
				} else {
					if len(failed) > 2 {
						failed = failed[:2]
					}
					fmt.Printf("ok     %s.%s: %q -> %s\n", rel, k, g.Anchor, strings.Join(failed, "; "))
				}
			}
		}
	}
	if holes > 0 {
		os.Exit(1)
	}
}
