package main

// hv check <property> --tier quick|thorough : the registered check command.

import (
	"golang.org/x/tools/go/ssa"
	"encoding/json"
	"flag"
	"fmt"
	"os"
	"path/filepath"
	"sort"
	"strconv"
	"strings"
	"time"
)

// packages to load per property
var propPkgs = map[string][]string{
	"C14": {"ringbuffer"},
	"C08": {"safemap", "actor"},
	"C15": {"remote"}, "C16": {"remote"}, "C17": {"remote"},
	"C18": {"cluster"}, "C19": {"cluster"}, "C20": {"cluster"},
}

func pkgsFor(prop string) []string {
	if p, ok := propPkgs[prop]; ok {
		return p
	}
	return []string{"actor"}
}

type KnownFinding struct {
	Property   string `json:"property"`
	Obligation string `json:"obligation"`
	What       string `json:"what"`
	Scenario   string `json:"scenario,omitempty"`
	ReplayPkg  string `json:"replay_pkg,omitempty"`  // package directory of the replay test
	ReplayFile string `json:"replay_file,omitempty"` // test file under /verif (injected with go test -overlay)
	ReplayTest string `json:"replay_test,omitempty"` // test function: asserts the property, so FAIL = defect reproduced
	ReplayExtra []string `json:"replay_extra_files,omitempty"`
}

type FixedFinding struct {
	Property string `json:"property"`
	Commit   string `json:"commit"`
	What     string `json:"what"`
	Obligation string `json:"obligation,omitempty"`
}

type KnownFile struct {
	Findings []KnownFinding `json:"findings"`
	Fixed    []FixedFinding `json:"fixed"`
}

func loadKnown(verif string) *KnownFile {
	kf := &KnownFile{}
	data, err := os.ReadFile(filepath.Join(verif, "known_findings.json"))
	if err == nil {
		_ = json.Unmarshal(data, kf)
	}
	return kf
}

// oblBelongs: a property's check discharges EVERY obligation of every function
// that lists the property (whatever the label's prefix): a caller's proof for
// this property may rest on any clause of a callee's contract, so all of them
// have to hold on the tree under check.
func oblBelongs(ob *Obligation, prop string) bool {
	return true
}

func oblBelongsByLabel(ob *Obligation, prop string) bool {
	if ob.Label == "" {
		return true
	}
	// labels of the form Cnn.xxx belong to that property only
	if len(ob.Label) >= 4 && ob.Label[0] == 'C' && ob.Label[3] == '.' {
		if _, err := strconv.Atoi(ob.Label[1:3]); err == nil {
			return strings.HasPrefix(ob.Label, prop+".")
		}
	}
	return true
}

func hasProp(ps []string, p string) bool {
	for _, q := range ps {
		if q == p {
			return true
		}
	}
	return false
}

type CheckResult struct {
	Prop       string
	Reports    []*FuncReport
	Obls       []*Obligation
	Sums       []*OblSummary
	ToolErrors []string
	Violations []*OblSummary
	Known      []*OblSummary
	KnownOther []*OblSummary
	KnownInfo  map[string]KnownFinding
	Wall       float64
	ContractSrc map[string]string
	Lemmas     int
	ImplNotes  []string
	CalleeBase []string // how each callee contract used by this check is itself justified
}

// runCheck verifies every function under contract for prop in world w.
func runCheck(w *World, prop string, timeoutS int, confirm bool, known *KnownFile) *CheckResult {
	res := &CheckResult{Prop: prop, KnownInfo: map[string]KnownFinding{}, ContractSrc: w.contractSrc}
	t0 := time.Now()
	type job struct {
		rel string
		c   *Contract
	}
	var jobs []job
	for _, rel := range w.pkgOrder {
		cf := w.contracts[rel]
		if cf == nil {
			continue
		}
		for _, key := range sortedKeys(cf.Funcs) {
			c := cf.Funcs[key]
			if c.Abstract || c.Trusted || !hasProp(c.Props, prop) {
				continue
			}
			jobs = append(jobs, job{rel, c})
		}
	}
	loopMisfit := map[string]string{}
	type implJob struct {
		rel string
		c   *Contract
		fn  *ssa.Function
	}
	var ijobs []implJob
	for _, rel := range w.pkgOrder {
		cf := w.contracts[rel]
		if cf == nil {
			continue
		}
		for _, key := range sortedKeys(cf.Funcs) {
			c := cf.Funcs[key]
			if !c.Abstract || !c.Impls || !hasProp(c.Props, prop) {
				continue
			}
			impls, own, err := w.implementations(c)
			if err != "" {
				res.ToolErrors = append(res.ToolErrors, err)
				continue
			}
			for _, o := range own {
				res.ImplNotes = append(res.ImplNotes, "implementation of "+relOf(c.Pkg)+"."+c.Key+" with a contract of its own (refinement of the interface contract is not machine-checked): "+o)
			}
			if len(impls) == 0 {
				res.ToolErrors = append(res.ToolErrors, "contract-mismatch: "+c.Key+" says `implementations` but no implementation without its own contract was found")
			}
			for _, im := range impls {
				ipkg, ikey := contractKey(im)
				cc := *c
				cc.Pkg, cc.Key = ipkg, ikey
				cc.Abstract, cc.Impls = false, false
				cc.Aliases = append([]string{"self"}, c.ParamNames...)
				ijobs = append(ijobs, implJob{relOf(ipkg), &cc, im})
			}
		}
	}
	for _, j := range ijobs {
		rep := VerifyFunc(w, j.rel, j.c, j.fn)
		for _, e := range rep.Errors {
			res.ToolErrors = append(res.ToolErrors, rep.Func+": "+e)
		}
		res.Reports = append(res.Reports, rep)
		res.Obls = append(res.Obls, rep.Obls...)
	}
	for _, j := range jobs {
		fn := w.findFunc(j.rel, j.c.Key)
		if fn == nil {
			res.ToolErrors = append(res.ToolErrors, fmt.Sprintf("contract-mismatch: no function %s in %s", j.c.Key, j.rel))
			continue
		}
		rep := VerifyFunc(w, j.rel, j.c, fn)
		for _, e := range rep.Errors {
			res.ToolErrors = append(res.ToolErrors, rep.Func+": "+e)
		}
		// loop ordinals named in the contract must exist
		for n := range j.c.Loops {
			if n > rep.Loops && !rep.InheritedLoops[fmt.Sprintf("%s:%d", j.c.Key, n)] {
				res.ToolErrors = append(res.ToolErrors, fmt.Sprintf("contract-mismatch: %s has %d loops, contract names loop %d", rep.Func, rep.Loops, n))
			}
		}
		var keep []*Obligation
		for _, ob := range rep.Obls {
			if oblBelongs(ob, prop) {
				keep = append(keep, ob)
			}
		}
		rep.Obls = keep
		res.Reports = append(res.Reports, rep)
		res.Obls = append(res.Obls, keep...)
	}
	res.CalleeBase = calleeBase(w, prop, res.Reports)
	// lemmas
	for _, rel := range w.pkgOrder {
		cf := w.contracts[rel]
		if cf == nil {
			continue
		}
		for _, lm := range cf.Lemmas {
			obs, errs := VerifyLemma(w, cf, lm, prop)
			res.Obls = append(res.Obls, obs...)
			res.ToolErrors = append(res.ToolErrors, errs...)
			if len(obs) > 0 {
				res.Lemmas++
			}
		}
	}
	// closed-world premise of every protocol whose methods belong to this property
	for _, rel := range w.pkgOrder {
		cf := w.contracts[rel]
		if cf == nil {
			continue
		}
		for _, ps := range cf.Protocols {
			uses := false
			for _, r := range res.Reports {
				if strings.Contains(r.Key, "(*"+ps.Struct+").") {
					uses = true
				}
			}
			if uses && (prop == "C02" || prop == "C03") {
				res.Obls = append(res.Obls, closedWorld(w, rel, ps, prop)...)
			}
		}
	}
	// functions whose contract does not fit the code under check (a clause
	// names a variable, loop or call the function no longer has; a loop has no
	// invariant): whatever fails there is undecided, not a violation
	misfit := loopMisfit
	for _, rep := range res.Reports {
		for _, e := range rep.Errors {
			// errors that are not tied to one path: an anchor no path reaches, an
			// internal error of the generator
			// (an anchor that is never reached does not excuse a failure: a call
			// that disappeared is the typical defect; helpers extracted by a
			// refactoring keep their anchors through inheritance)
			if strings.Contains(e, "internal") || strings.Contains(e, "inline depth") || strings.Contains(e, "recursive inlining") {
				misfit[rep.Func] = e
			}
		}
		if len(rep.NoInvLoops) > 0 {
			res.ToolErrors = append(res.ToolErrors, "contract-mismatch: "+rep.Func+": no loop contract for "+strings.Join(rep.NoInvLoops, ", "))
		}
	}
	kn := map[string]KnownFinding{}
	for _, k := range known.Findings {
		kn[k.Obligation] = k
	}
	// obligations recorded as known findings are expected to fail: a short
	// budget is enough to confirm that they are still not discharged
	if timeoutS <= 20 {
		for _, ob := range res.Obls {
			if _, ok := kn[ob.Name]; ok {
				ob.Timeout = 4
			}
		}
	}
	Discharge(res.Obls, timeoutS, confirm, 16)
	res.Sums = Summarize(res.Obls)
	for _, s := range res.Sums {
		if len(s.Failed) == 0 {
			continue
		}
		if k, ok := kn[s.Name]; ok {
			if k.Property == prop {
				res.Known = append(res.Known, s)
			} else {
				res.KnownOther = append(res.KnownOther, s) // recorded under another property: reported by that property's check
			}
			res.KnownInfo[s.Name] = k
			continue
		}
		// a frame obligation speaks about the contract's own "nothing else
		// changes" clause, not about the property: when the code now writes
		// state the contract does not mention, the honest answer is that the
		// contract no longer fits (undecided), not that the property is violated
		if s.Kind == "reach" {
			res.ToolErrors = append(res.ToolErrors, fmt.Sprintf("vacuous: %s (the assumptions on this path are contradictory: nothing proved there counts)", s.Name))
			continue
		}
		if s.Kind == "frame" || s.Kind == "loop.frame" {
			res.ToolErrors = append(res.ToolErrors, fmt.Sprintf("contract-mismatch: %s is not discharged (the function changes state outside its modifies clause, or the clause can no longer be proved)", s.Name))
			continue
		}
		why, bad := misfit[strings.SplitN(s.Name, "#", 2)[0]]
		if !bad {
			// every failing instance lies on a path where some clause of the
			// contract could not be applied (no loop contract, a clause naming a
			// variable that is gone): nothing is decided on such a path
			bad = true
			for _, f := range s.Failed {
				if f.Taint == "" {
					bad = false
				} else {
					why = f.Taint
				}
			}
		}
		if bad {
			res.ToolErrors = append(res.ToolErrors, fmt.Sprintf("not decided: %s is not discharged, but the contract of that function does not fit the code under check (%s); update the contract first", s.Name, why))
			continue
		}
		res.Violations = append(res.Violations, s)
	}
	res.Wall = time.Since(t0).Seconds()
	return res
}

func safeName(s string) string {
	return strings.NewReplacer("/", "_", " ", "_", "(", "", ")", "", "*", "", "[", "-", "]", "-", "#", ".", "@", ".at.", "<", "", ">", "", ";", "_", ":", "_").Replace(s)
}

func cmdCheck(args []string) {
	fs := flag.NewFlagSet("check", flag.ExitOnError)
	repo := fs.String("repo", "/repo", "")
	verif := fs.String("verif", "/verif", "")
	tier := fs.String("tier", "", "quick|thorough")
	noEvidence := fs.Bool("no-evidence", false, "")
	// allow `check C14 --tier quick`
	var prop string
	var rest []string
	for _, a := range args {
		if prop == "" && !strings.HasPrefix(a, "-") {
			prop = a
			continue
		}
		rest = append(rest, a)
	}
	fs.Parse(rest)
	if *tier == "" {
		*tier = os.Getenv("VERIF_TIER")
	}
	if *tier == "" {
		*tier = "quick"
	}
	seed := 0
	if s := os.Getenv("VERIF_SEED"); s != "" {
		seed, _ = strconv.Atoi(s)
	}
	if prop == "" {
		fmt.Fprintln(os.Stderr, "usage: hv check <property> --tier quick|thorough")
		os.Exit(2)
	}
	t0 := time.Now()
	w, err := LoadWorld(*repo, *verif, pkgsFor(prop), nil)
	if err != nil {
		fmt.Println("TOOL-ERROR: cannot load packages:", err)
		os.Exit(2)
	}
	known := loadKnown(*verif)
	timeout, confirm := 20, false
	if *tier == "thorough" {
		timeout, confirm = 120, true
	}
	res := runCheck(w, prop, timeout, confirm, known)
	exit := 0
	for _, e := range res.ToolErrors {
		fmt.Println("UNDECIDED:", e)
		exit = 2
	}
	if len(res.Obls) == 0 {
		fmt.Println("VACUOUS: no obligations generated for", prop)
		exit = 2
	}
	for _, s := range res.Known {
		k := res.KnownInfo[s.Name]
		fmt.Printf("KNOWN-FINDING: property=%s %s -- %s\n", prop, s.Name, k.What)
	}
	replayDir := filepath.Join(*verif, "replays", prop)
	var violationLines []string
	for _, s := range res.Violations {
		os.MkdirAll(replayDir, 0o755)
		path := filepath.Join(replayDir, safeName(s.Name)+".json")
		suffix := writeReplay(w, *verif, prop, s, path)
		line := fmt.Sprintf("VIOLATION property=%s replay=%s%s", prop, path, suffix)
		violationLines = append(violationLines, line)
		fmt.Printf("FAILED-OBLIGATION: %s (%s, %s) at %s\n", s.Name, s.Failed[0].Result.Status, s.Failed[0].Result.Solver, s.Failed[0].Pos)
		fmt.Println(line)
		exit = 1
	}
	// thorough: confirm that every reported known finding still reproduces on the real code
	var kfReplays []map[string]any
	if *tier == "thorough" {
		for _, s := range res.Known {
			k := res.KnownInfo[s.Name]
			if k.ReplayTest == "" {
				continue
			}
			rep, out := runReplayTest(*repo, *verif, k.ReplayPkg, k.ReplayFile, k.ReplayTest, k.ReplayExtra...)
			kfReplays = append(kfReplays, map[string]any{"obligation": s.Name, "test": k.ReplayFile + ":" + k.ReplayTest, "reproduced_on_real_code": rep, "output_tail": tailStr(out, 600)})
			if !rep {
				fmt.Printf("NOTE: known finding %s did not reproduce in its replay test (the obligation still fails)\n", s.Name)
			}
		}
	}
	// thorough: must-fail corpus for this property
	var mutRes []MutantResult
	if *tier == "thorough" && exit == 0 {
		mutRes = runMutants(*repo, *verif, prop, known, 6)
		// a miss is a statement about the sensitivity of the machinery, not
		// about the property on the tree under check: it is printed and
		// recorded in the evidence (mutants[].caught), the exit code stays
		for _, m := range mutRes {
			if !m.Caught {
				fmt.Printf("SELFTEST-MISS: mutant %s not caught (%s)\n", m.Name, m.Err)
			}
		}
	}
	wall := time.Since(t0).Seconds()
	if !*noEvidence {
		writeEvidence(*verif, prop, *tier, seed, res, mutRes, wall, len(violationLines), kfReplays)
	}
	disc := 0
	for _, s := range res.Sums {
		if len(s.Failed) == 0 {
			disc++
		}
	}
	fmt.Printf("hv: property %s tier %s: %d functions, %d obligation names (%d instances), %d discharged, %d known findings, %d violations, %.1fs\n",
		prop, *tier, len(res.Reports), len(res.Sums), len(res.Obls), disc, len(res.Known), len(res.Violations), wall)
	os.Exit(exit)
}

type ReplayFile struct {
	Property   string   `json:"property"`
	Obligation string   `json:"obligation"`
	Function   string   `json:"function"`
	Kind       string   `json:"kind"`
	Label      string   `json:"label"`
	Position   string   `json:"position"`
	Path       []string `json:"path"`
	Solver     string   `json:"solver"`
	Status     string   `json:"status"`
	Model      string   `json:"model,omitempty"`
	SolverOut  string   `json:"solver_output,omitempty"`
	Replay     *ReplayOutcome `json:"replay,omitempty"`
	QueryFile  string   `json:"query_file"`
	Note       string   `json:"note"`
}

type ReplayOutcome struct {
	Driver   string `json:"driver"`
	Input    string `json:"input"`
	Observed string `json:"observed"`
	Reproduced bool `json:"reproduced"`
}

func writeReplay(w *World, verif, prop string, s *OblSummary, path string) string {
	ob := s.Failed[0]
	for _, f := range s.Failed {
		if f.Result.Status != "skipped" {
			ob = f
			break
		}
	}
	// prefer an instance with a model
	for _, f := range s.Failed {
		if f.Result.Status == "sat" {
			ob = f
			break
		}
	}
	qf := strings.TrimSuffix(path, ".json") + ".smt2"
	os.WriteFile(qf, []byte(ob.Query), 0o644)
	rf := &ReplayFile{Property: prop, Obligation: s.Name, Function: ob.Func, Kind: ob.Kind, Label: ob.Label,
		Position: ob.Pos, Path: ob.Trace, Solver: ob.Result.Solver, Status: ob.Result.Status, QueryFile: qf}
	out := ob.Result.Output
	if len(out) > 20000 {
		out = out[:20000] + "\n...[truncated]"
	}
	suffix := ""
	if ob.Result.Status == "sat" {
		rf.Model = filterModel(ob.Result.Model)
	} else {
		rf.SolverOut = out
	}
	// scenario replay on the real code, when a driver covers this obligation
	rf.Replay = tryReplay(w, verif, prop, ob)
	if rf.Replay == nil || !rf.Replay.Reproduced {
		suffix = " no-failing-input-found"
		rf.Note = "obligation not discharged; no concrete failing input was reproduced on the real code"
	} else {
		rf.Note = "the scenario guarded by this obligation was run against the real code and violates the property (see replay.observed)"
	}
	data, _ := json.MarshalIndent(rf, "", " ")
	os.WriteFile(path, data, 0o644)
	return suffix
}

// filterModel keeps the definitions of function arguments and loop variables.
func filterModel(m string) string {
	var keep []string
	lines := strings.Split(m, "\n")
	for i := 0; i < len(lines); i++ {
		l := lines[i]
		if strings.Contains(l, "define-fun arg.") || strings.Contains(l, "define-fun loop.") || strings.Contains(l, "define-fun res.") {
			keep = append(keep, strings.TrimSpace(l))
			if i+1 < len(lines) {
				keep = append(keep, "   "+strings.TrimSpace(lines[i+1]))
			}
		}
	}
	s := strings.Join(keep, "\n")
	if len(s) > 8000 {
		s = s[:8000]
	}
	return s
}

func tailStr(s string, n int) string {
	if len(s) > n {
		return s[len(s)-n:]
	}
	return s
}

func writeEvidence(verif, prop, tier string, seed int, res *CheckResult, muts []MutantResult, wall float64, nviol int, kfReplays []map[string]any) {
	type oblEv struct {
		Name      string  `json:"name"`
		Instances int     `json:"instances"`
		Status    string  `json:"status"`
		Solver    string  `json:"solver"`
		Secs      float64 `json:"solver_s"`
	}
	var obls []oblEv
	disc := 0
	solverTime := 0.0
	nreach := 0
	for _, s := range res.Sums {
		st := "discharged"
		if len(s.Failed) > 0 {
			st = "failed:" + s.Failed[0].Result.Status
			if k, ok := res.KnownInfo[s.Name]; ok {
				st = "known-finding (" + k.Property + ")"
			}
		} else {
			disc++
		}
		if s.Kind == "reach" {
			nreach++
		}
		solverTime += s.Secs
		obls = append(obls, oblEv{s.Name, s.Instances, st, s.Solver, float64(int(s.Secs*1000)) / 1000})
	}
	var funcs []map[string]any
	trusted := map[string]bool{}
	assumptions := map[string]bool{}
	for _, r := range res.Reports {
		funcs = append(funcs, map[string]any{"function": r.Func, "paths": r.Paths, "obligation_instances": len(r.Obls),
			"loops": r.Loops, "loops_with_invariant": r.LoopsInv, "callee_contracts_used": r.Used, "inlined": r.Inlined})
		for _, e := range r.Externals {
			trusted["external (assumed: no effect on repository heap, no panic): "+e] = true
		}
		for _, e := range r.LibUsed {
			trusted["library model: "+e] = true
		}
		for _, a := range r.Assumes {
			assumptions["assume in contract: "+a] = true
		}
		for _, a := range r.Warnings {
			assumptions["warning: "+a] = true
		}
		for _, g := range r.GoStmts {
			assumptions["goroutine body not part of the sequential proof: "+g+" in "+r.Func] = true
		}
	}
	for _, a := range globalAssumptions {
		assumptions[a] = true
	}
	for _, a := range propAssumptions[prop] {
		assumptions[a] = true
	}
	for _, a := range res.CalleeBase {
		assumptions[a] = true
	}
	for _, a := range res.ImplNotes {
		assumptions[a] = true
	}
	tb := []string{"go/packages+go/types+go/ssa (x/tools v0.29.0) faithfully represent the compiled program", "hv SSA->SMT translation (self-tested by the must-fail corpus)",
		"SMT solvers z3 5.1.0 / z3 4.8.12 / cvc5 1.0 are sound", "gomod axioms (Go % on non-negative operands)", "append/make/map builtin models"}
	tb = append(tb, sortedKeys(trusted)...)
	var samples []any
	for i, s := range res.Sums {
		if i%(len(res.Sums)/4+1) == 0 && len(samples) < 5 {
			var q string
			for _, ob := range res.Obls {
				if ob.Name == s.Name {
					ls := strings.Split(ob.Query, "\n")
					if len(ls) > 3 {
						q = strings.Join(ls[len(ls)-4:], "\n")
					}
					if len(q) > 1200 {
						q = q[len(q)-1200:]
					}
					break
				}
			}
			samples = append(samples, map[string]any{"obligation": s.Name, "instances": s.Instances, "query_tail": q})
		}
	}
	var mutEv []map[string]any
	for _, m := range muts {
		mutEv = append(mutEv, map[string]any{"mutant": m.Name, "caught": m.Caught, "failed_obligations": m.Failed})
	}
	var knownEv []string
	for _, s := range res.Known {
		knownEv = append(knownEv, s.Name)
	}
	var knownOtherEv []string
	for _, s := range res.KnownOther {
		knownOtherEv = append(knownOtherEv, s.Name+" (recorded under "+res.KnownInfo[s.Name].Property+")")
	}
	ev := map[string]any{
		"property_id": prop, "tier": tier, "seed": seed, "level": "proof",
		"coverage": map[string]any{
			"obligations": len(res.Sums) - len(res.Known) - len(res.KnownOther), "discharged": disc, "obligation_instances": len(res.Obls),
			"checker_cmd": "bin/hv check " + prop + " --tier " + tier,
			"trusted_base": tb, "functions_under_contract": funcs, "obligation_list": obls, "samples": samples,
			"solver_time_s": float64(int(solverTime*100)) / 100, "reach_checks": nreach, "lemmas": res.Lemmas,
			"known_findings_reported": knownEv, "known_findings_of_other_properties_on_shared_functions": knownOtherEv, "known_findings_replayed": kfReplays, "mutants": mutEv, "contract_files": res.ContractSrc,
			"explanation": "Each obligation is a verification condition generated by symbolic execution of the go/ssa form of the real function against its //@ contract; an obligation name counts as discharged when every path instance is unsat. Known findings are obligations that fail on the pinned tree for a recorded genuine defect; they are not counted as discharged.",
		},
		"assumptions": sortedKeys(assumptions), "wall_s": float64(int(wall*10)) / 10, "violations": nviol,
	}
	os.MkdirAll(filepath.Join(verif, "evidence"), 0o755)
	data, _ := json.MarshalIndent(ev, "", " ")
	os.WriteFile(filepath.Join(verif, "evidence", prop+".json"), data, 0o644)
}

var globalAssumptions = []string{
	"integers are mathematical (no wrap-around) except where a contract says 'overflow'",
	"Go memory model: operations on one mutex/atomic word are totally ordered and publish prior writes",
	"user code (Receive, Producer, middleware) touches engine state only through the exported API",
	"a freshly allocated object is not referenced from the pre-existing heap",
}

var propAssumptions = map[string][]string{
	"C19": {
		"scope (partial): Agent.bcast (body, as bcast!impl), Agent.activate/handleActivationRequest/handleActivation/handleDeactivation/handleActorTopology/addActivated/removeActivated/hasKindLocal/handleGetActive (by id)/memberJoin (topology)/memberLeave (purge)/Receive (dispatch), MemberSet.FilterByKind, Member.HasKind; cluster-wide convergence is the composition of these clauses with delivery and is not machine-checked",
		"thread confinement of the agent's handlers; PID and Member objects immutable",
	},
	"C17": {
		"scope (partial): Engine.send (remote branch), Remote.Send/Start/Stop, streamRouter.Receive/deliverStream/handleTerminateStream, streamWriter.Shutdown/PID, streamReader.Receive (in-envelope order, envelope by envelope, on the stream's goroutine); nothing about TCP, drpc, dialing, retry timing or ordering on the wire is decided",
		"router, writer, Remote fields and the router's address table are not written by code reached through Engine.SpawnProc/Send",
		"no interleaving of concurrent Remote.Start/Stop calls is considered (each runs to completion)",
	},
	"C15": {
		"scope: lookupTypeName, lookupPIDs, streamWriter.Invoke, ProtoSerializer.TypeName/Serialize; the inbound half (streamReader.Receive) is C16; the round trip is their composition up to LookupKey equality",
		"hk (xxh3.Hash) is collision-free on distinct byte strings; PID.LookupKey() == hk(Address ++ ID) (trusted contract)",
		"abstract contracts: Serializer.TypeName (pure, names tnameof), Serializer.Serialize (names ser), DRPCRemote_ReceiveStream.Send (one StreamSend entry)",
		"every envelope of the batch carries a non-nil *streamDeliver with a non-nil target (streamRouter.deliverStream is the only producer)",
		"table sizes fit int32 (batches hold at most 4096 messages)",
	},
	"C18": {
		"scope: NewMemberSet, MemberSet.Except/Slice, Agent.handleMembers/memberJoin/memberLeave/rebuildKinds (with MemberSet.ForEach and its closure inlined)/removeActivated, Agent.Receive restricted to *Members and getMembers; Cluster.Members/HasKind (request/response) and the other agent cases are outside this check",
		"thread confinement of the agent's handlers (C02); Member and PID objects are immutable",
		"map iteration model: any not yet visited key of the current key set; the visited count equals len(m) at the end while the key set is unchanged",
	},
	"C08": {
		"scope: SafeMap.New/Set/Get/Delete/Len (lock-invariant mode), Context.SpawnChild/Parent/Child, process.cleanup, process.PID; SafeMap.ForEach and Context.Children are not verified",
		"transitivity over the tree is induction on depth with cleanup's contract as hypothesis for each child; the child's poison context is done only after its own cleanup (C07); not machine-checked",
		"thread confinement of cleanup and of SpawnChild (they run on the owning actor's worker: C02)",
	},
	"C02": {
		"scope: Inbox.Send/schedule/process/run/Start/Stop and goscheduler.Schedule in global-invariant mode; process.Start/Invoke/tryRestart/cleanup for 'runs on the owner thread'; Engine.Spawn/SpawnProc/newProcess/NewInbox carry the start permission from the constructor to the first Start (ghost startPerm)",
		"thread-modular reasoning: before every atomic step all shared state of the inbox is arbitrary subject to the invariant and this thread's stable clauses (each stable clause is re-proved after every step of the thread that relies on it)",
		"sync/atomic: operations on procStatus are totally ordered and publish prior writes (Go memory model); the plain write of in.proc happens between two such operations of the starter",
		"the step from 'at most one worker token and every Invoke under it' to 'Receive invocations never overlap in time' is a meta-argument (token passing through one atomic word), not a machine-checked obligation",
		"abstract contracts: Processer.Invoke (requires the token or the unstarted owner; may store `stopped`), Scheduler.Schedule/Throughput; ringbuffer contracts of C14",
	},
	"C03": {
		"scope: the safety invariant 'idle and non-empty implies a pending waker' at every atomic step of the Inbox functions; liveness ('eventually processed') is not decidable by this technique",
		"thread-modular reasoning and sync/atomic assumptions as for C02; RingBuffer.Len() returns the length at its atomic load, Push adds one at its linearisation point (C14)",
	},
	"C01": {
		"scope: Engine.Send/SendWithSender/send/isLocalMessage/SendLocal, process.Send, Inbox.Send/schedule/run, process.Invoke/invokeMsg (+ package ringbuffer through C14); interleavings of senders and the worker are C02/C03",
		"thread confinement: Start/Invoke/invokeMsg/tryRestart/cleanup run on the inbox worker or (first Start) on the spawning goroutine, one at a time (C02; not decided by this check)",
		"user code (Receive, Producer, middleware, handlers reached through them) cannot write the engine's private fields (process, Context, Inbox, Registry, Engine, PID objects, envelope slices, the middleware slice) except through calls this proof does not see; nested engine activity of user code on other actors is not part of this function's effect log",
		"functype ReceiveFunc / Receiver.Receive: may panic except while handling Stopped; a panic value is never a typed-nil *InternalError",
		"functype Producer: returns a non-nil receiver, does not panic; functype MiddlewareFunc: pure, returns a non-nil function named wrap(mw, next)",
		"envelopes never carry Initialized/Started/Stopped values as user messages",
		"abstract contracts: Inboxer.Start/Stop/Send, Processer.Send/Start/Invoke/PID, Scheduler.Schedule/Throughput, Remoter.Send, context.CancelFunc (each appends exactly one event to the effect log, no other heap effect)",
		"recursive ghost definition mwchain is well-founded (recursion on n - i); instances are added only by explicit unfold statements",
	},
	"C04": {
		"scope: process.Start (with its recover handler), Invoke (with its recover handler), invokeMsg, tryRestart, cleanup, Registry.add",
		"thread confinement: Start/Invoke/invokeMsg/tryRestart/cleanup run on the inbox worker or (first Start) on the spawning goroutine, one at a time (C02; not decided by this check)",
		"user code (Receive, Producer, middleware, handlers reached through them) cannot write the engine's private fields (process, Context, Inbox, Registry, Engine, PID objects, envelope slices, the middleware slice) except through calls this proof does not see; nested engine activity of user code on other actors is not part of this function's effect log",
		"functype ReceiveFunc / Receiver.Receive: may panic except while handling Stopped; a panic value is never a typed-nil *InternalError",
		"functype Producer: returns a non-nil receiver, does not panic; functype MiddlewareFunc: pure, returns a non-nil function named wrap(mw, next)",
		"envelopes never carry Initialized/Started/Stopped values as user messages",
		"abstract contracts: Inboxer.Start/Stop/Send, Processer.Send/Start/Invoke/PID, Scheduler.Schedule/Throughput, Remoter.Send, context.CancelFunc (each appends exactly one event to the effect log, no other heap effect)",
		"recursive ghost definition mwchain is well-founded (recursion on n - i); instances are added only by explicit unfold statements",
	},
	"C05": {
		"scope: process.Invoke (with its recover handler), Start, tryRestart",
		"thread confinement: Start/Invoke/invokeMsg/tryRestart/cleanup run on the inbox worker or (first Start) on the spawning goroutine, one at a time (C02; not decided by this check)",
		"user code (Receive, Producer, middleware, handlers reached through them) cannot write the engine's private fields (process, Context, Inbox, Registry, Engine, PID objects, envelope slices, the middleware slice) except through calls this proof does not see; nested engine activity of user code on other actors is not part of this function's effect log",
		"functype ReceiveFunc / Receiver.Receive: may panic except while handling Stopped; a panic value is never a typed-nil *InternalError",
		"functype Producer: returns a non-nil receiver, does not panic; functype MiddlewareFunc: pure, returns a non-nil function named wrap(mw, next)",
		"envelopes never carry Initialized/Started/Stopped values as user messages",
		"abstract contracts: Inboxer.Start/Stop/Send, Processer.Send/Start/Invoke/PID, Scheduler.Schedule/Throughput, Remoter.Send, context.CancelFunc (each appends exactly one event to the effect log, no other heap effect)",
		"recursive ghost definition mwchain is well-founded (recursion on n - i); instances are added only by explicit unfold statements",
	},
	"C06": {
		"scope: process.tryRestart, cleanup, Start, Invoke; MaxRestarts >= 0",
		"thread confinement: Start/Invoke/invokeMsg/tryRestart/cleanup run on the inbox worker or (first Start) on the spawning goroutine, one at a time (C02; not decided by this check)",
		"user code (Receive, Producer, middleware, handlers reached through them) cannot write the engine's private fields (process, Context, Inbox, Registry, Engine, PID objects, envelope slices, the middleware slice) except through calls this proof does not see; nested engine activity of user code on other actors is not part of this function's effect log",
		"functype ReceiveFunc / Receiver.Receive: may panic except while handling Stopped; a panic value is never a typed-nil *InternalError",
		"functype Producer: returns a non-nil receiver, does not panic; functype MiddlewareFunc: pure, returns a non-nil function named wrap(mw, next)",
		"envelopes never carry Initialized/Started/Stopped values as user messages",
		"abstract contracts: Inboxer.Start/Stop/Send, Processer.Send/Start/Invoke/PID, Scheduler.Schedule/Throughput, Remoter.Send, context.CancelFunc (each appends exactly one event to the effect log, no other heap effect)",
		"recursive ghost definition mwchain is well-founded (recursion on n - i); instances are added only by explicit unfold statements",
	},
	"C07": {
		"scope: Engine.sendPoisonPill/Stop, process.Invoke/invokeMsg/cleanup; Engine.Poison (through Poison!impl) and PoisonCtx, the one-line wrappers of sendPoisonPill",
		"context.WithCancel model: returns a fresh non-nil context and its cancel func ctxcancel(ctx)",
		"thread confinement: Start/Invoke/invokeMsg/tryRestart/cleanup run on the inbox worker or (first Start) on the spawning goroutine, one at a time (C02; not decided by this check)",
		"user code (Receive, Producer, middleware, handlers reached through them) cannot write the engine's private fields (process, Context, Inbox, Registry, Engine, PID objects, envelope slices, the middleware slice) except through calls this proof does not see; nested engine activity of user code on other actors is not part of this function's effect log",
		"functype ReceiveFunc / Receiver.Receive: may panic except while handling Stopped; a panic value is never a typed-nil *InternalError",
		"functype Producer: returns a non-nil receiver, does not panic; functype MiddlewareFunc: pure, returns a non-nil function named wrap(mw, next)",
		"envelopes never carry Initialized/Started/Stopped values as user messages",
		"abstract contracts: Inboxer.Start/Stop/Send, Processer.Send/Start/Invoke/PID, Scheduler.Schedule/Throughput, Remoter.Send, context.CancelFunc (each appends exactly one event to the effect log, no other heap effect)",
		"recursive ghost definition mwchain is well-founded (recursion on n - i); instances are added only by explicit unfold statements",
	},
	"C09": {
		"scope: Engine.send/Send/SendWithSender/SendLocal/isLocalMessage/sendPoisonPill, BroadcastEvent (body), Context.Forward, eventStream.Receive",
		"thread confinement: Start/Invoke/invokeMsg/tryRestart/cleanup run on the inbox worker or (first Start) on the spawning goroutine, one at a time (C02; not decided by this check)",
		"user code (Receive, Producer, middleware, handlers reached through them) cannot write the engine's private fields (process, Context, Inbox, Registry, Engine, PID objects, envelope slices, the middleware slice) except through calls this proof does not see; nested engine activity of user code on other actors is not part of this function's effect log",
		"functype ReceiveFunc / Receiver.Receive: may panic except while handling Stopped; a panic value is never a typed-nil *InternalError",
		"functype Producer: returns a non-nil receiver, does not panic; functype MiddlewareFunc: pure, returns a non-nil function named wrap(mw, next)",
		"envelopes never carry Initialized/Started/Stopped values as user messages",
		"abstract contracts: Inboxer.Start/Stop/Send, Processer.Send/Start/Invoke/PID, Scheduler.Schedule/Throughput, Remoter.Send, context.CancelFunc (each appends exactly one event to the effect log, no other heap effect)",
		"recursive ghost definition mwchain is well-founded (recursion on n - i); instances are added only by explicit unfold statements",
	},
	"C11": {
		"scope: Engine.Request, Context.Respond/Message/PID, Response.Send/Result/PID",
		"select and channel operations: nondeterministic choice among the cases, received values arbitrary; context.WithTimeout returns a fresh context and its cancel func",
		"thread confinement: Start/Invoke/invokeMsg/tryRestart/cleanup run on the inbox worker or (first Start) on the spawning goroutine, one at a time (C02; not decided by this check)",
		"user code (Receive, Producer, middleware, handlers reached through them) cannot write the engine's private fields (process, Context, Inbox, Registry, Engine, PID objects, envelope slices, the middleware slice) except through calls this proof does not see; nested engine activity of user code on other actors is not part of this function's effect log",
		"functype ReceiveFunc / Receiver.Receive: may panic except while handling Stopped; a panic value is never a typed-nil *InternalError",
		"functype Producer: returns a non-nil receiver, does not panic; functype MiddlewareFunc: pure, returns a non-nil function named wrap(mw, next)",
		"envelopes never carry Initialized/Started/Stopped values as user messages",
		"abstract contracts: Inboxer.Start/Stop/Send, Processer.Send/Start/Invoke/PID, Scheduler.Schedule/Throughput, Remoter.Send, context.CancelFunc (each appends exactly one event to the effect log, no other heap effect)",
		"recursive ghost definition mwchain is well-founded (recursion on n - i); instances are added only by explicit unfold statements",
	},
	"C12": {
		"scope: eventStream.Receive, Engine.Subscribe/Unsubscribe, Context.Forward, BroadcastEvent (body) and the publication sites in Start, cleanup, tryRestart",
		"abstract contract of EventLogger.Log: pure",
		"thread confinement: Start/Invoke/invokeMsg/tryRestart/cleanup run on the inbox worker or (first Start) on the spawning goroutine, one at a time (C02; not decided by this check)",
		"user code (Receive, Producer, middleware, handlers reached through them) cannot write the engine's private fields (process, Context, Inbox, Registry, Engine, PID objects, envelope slices, the middleware slice) except through calls this proof does not see; nested engine activity of user code on other actors is not part of this function's effect log",
		"functype ReceiveFunc / Receiver.Receive: may panic except while handling Stopped; a panic value is never a typed-nil *InternalError",
		"functype Producer: returns a non-nil receiver, does not panic; functype MiddlewareFunc: pure, returns a non-nil function named wrap(mw, next)",
		"envelopes never carry Initialized/Started/Stopped values as user messages",
		"abstract contracts: Inboxer.Start/Stop/Send, Processer.Send/Start/Invoke/PID, Scheduler.Schedule/Throughput, Remoter.Send, context.CancelFunc (each appends exactly one event to the effect log, no other heap effect)",
		"recursive ghost definition mwchain is well-founded (recursion on n - i); instances are added only by explicit unfold statements",
	},
	"C13": {
		"scope: applyMiddleware and every delivery site in Start, Invoke, invokeMsg, cleanup and the two recover handlers",
		"thread confinement: Start/Invoke/invokeMsg/tryRestart/cleanup run on the inbox worker or (first Start) on the spawning goroutine, one at a time (C02; not decided by this check)",
		"user code (Receive, Producer, middleware, handlers reached through them) cannot write the engine's private fields (process, Context, Inbox, Registry, Engine, PID objects, envelope slices, the middleware slice) except through calls this proof does not see; nested engine activity of user code on other actors is not part of this function's effect log",
		"functype ReceiveFunc / Receiver.Receive: may panic except while handling Stopped; a panic value is never a typed-nil *InternalError",
		"functype Producer: returns a non-nil receiver, does not panic; functype MiddlewareFunc: pure, returns a non-nil function named wrap(mw, next)",
		"envelopes never carry Initialized/Started/Stopped values as user messages",
		"abstract contracts: Inboxer.Start/Stop/Send, Processer.Send/Start/Invoke/PID, Scheduler.Schedule/Throughput, Remoter.Send, context.CancelFunc (each appends exactly one event to the effect log, no other heap effect)",
		"recursive ghost definition mwchain is well-founded (recursion on n - i); instances are added only by explicit unfold statements",
	},
	"C10": {
		"scope: Registry.add/Remove/get/getByID/GetPID, Context.GetPID, Engine.Spawn/SpawnProc, process.cleanup (the caller of Remove)",
		"sync.RWMutex: mutual exclusion and a total order of critical sections; the protected map is havoced at every Lock/RLock and at every call of a locked Registry method, so nothing is assumed about other threads beyond the lock invariant",
		"abstract contract of Processer.PID(): a stable function of the processer value (pidof), non-nil",
		"abstract contract of Processer.Start(): returns normally; leaves engine-private fields (Registry, process, Context, Inbox, Engine, PID objects) as they are except through calls this proof does not see",
	},
	"C16": {
		"scope: streamReader.Receive; the generated decoder (Envelope/Message.UnmarshalVT), the protobuf library behind Deserialize and drpc's handling of the returned error are outside the proof",
		"abstract contract assumed of DRPCRemote_ReceiveStream.Recv: on success the envelope and the elements of Messages are non-nil (nothing is assumed about indices or table lengths)",
		"abstract contract assumed of Deserializer.Deserialize: returns normally; its result is named deser(data, tname)",
		"int32 -> int conversion treated as exact (true on every Go platform)",
	},
	"C20": {
		"scope: MemberSet.GetByHost/Contains/Add/Remove, SelfManaged.removeMember/addMembers/sendMembersToAgent and SelfManaged.Receive restricted to its three membership messages; handleEventStream, discovery (mDNS) and the pinger are outside the proof",
	},
}

// calleeBase lists, for every callee contract some proof of this check relied
// on, what stands behind that contract: nothing (trusted / abstract), a second
// contract checked against the body (F!impl), or the obligations of another
// property's check.
func calleeBase(w *World, prop string, reps []*FuncReport) []string {
	all := map[string]*Contract{}
	for _, cf := range w.contracts {
		for _, c := range cf.Funcs {
			all[c.Pkg+"."+c.Key] = c
		}
	}
	short := func(n string) string { return strings.TrimPrefix(n, "github.com/anthdm/hollywood/") }
	out := map[string]bool{}
	for _, r := range reps {
		for _, u := range r.Used {
			c := all[u]
			if c == nil {
				out["function-type contract (values of this type are user code or closures; assumed to satisfy it): "+short(u)] = true
				continue
			}
			switch {
			case c.Trusted && all[u+"!impl"] != nil:
				out["trusted contract at call sites, body checked against a second contract ("+short(u)+"!impl): "+short(u)] = true
			case c.Trusted:
				out["trusted contract (body NOT verified): "+short(u)] = true
			case c.Abstract:
				out["abstract contract (interface method or function value; its implementations are assumed to satisfy it): "+short(u)] = true
			case !hasProp(c.Props, prop):
				out["callee contract discharged by the check(s) of "+strings.Join(c.Props, ",")+", not by this check: "+short(u)] = true
			}
		}
	}
	return sortedKeys(out)
}

func sortStrings(s []string) []string { sort.Strings(s); return s }
