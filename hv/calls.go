package main

// Calls: contracts, inlining, dynamic calls, builtins, panics.

import (
	"fmt"
	"go/token"
	"go/types"
	"strings"

	"golang.org/x/tools/go/ssa"
)

// contractKey returns (package path, key) for a function.
func contractKey(fn *ssa.Function) (string, string) {
	o := fn
	if fn.Origin() != nil {
		o = fn.Origin()
	}
	pkg := ""
	root := o
	for root.Parent() != nil {
		root = root.Parent()
	}
	if root.Origin() != nil {
		root = root.Origin()
	}
	if root.Pkg != nil {
		pkg = root.Pkg.Pkg.Path()
	} else if obj := root.Object(); obj != nil && obj.Pkg() != nil {
		pkg = obj.Pkg().Path()
	}
	name := o.RelString(nil)
	// strip package qualifiers and type arguments
	name = stripTypeArgs(name)
	if pkg != "" {
		name = strings.ReplaceAll(name, pkg+".", "")
	}
	return pkg, name
}

func stripTypeArgs(s string) string {
	var sb strings.Builder
	depth := 0
	for _, c := range s {
		switch c {
		case '[':
			depth++
		case ']':
			depth--
		default:
			if depth == 0 {
				sb.WriteRune(c)
			}
		}
	}
	return sb.String()
}

func (x *Exec) contractFor(fn *ssa.Function) *Contract {
	pkg, key := contractKey(fn)
	if x.contract != nil {
		if c := x.w.findContract(pkg, key+" in "+strings.TrimSuffix(x.contract.Key, "!impl")); c != nil {
			return c
		}
	}
	return x.w.findContract(pkg, key)
}

func (x *Exec) calleeName(c *ssa.CallCommon, fv Value) string {
	if c.IsInvoke() {
		return c.Method.Name()
	}
	if f := c.StaticCallee(); f != nil {
		return stripTypeArgs(f.Name())
	}
	if b, ok := c.Value.(*ssa.Builtin); ok {
		return b.Name()
	}
	if fv.Fn != nil {
		return stripTypeArgs(fv.Fn.Fn.Name())
	}
	return exprTextShort(c.Value)
}

func exprTextShort(v ssa.Value) string {
	s := exprText(v)
	if i := strings.LastIndex(s, "."); i >= 0 {
		s = s[i+1:]
	}
	return s
}

// siteOrdinal is the static ordinal (1-based, block order) of a call site among
// the call/defer/go instructions of fn whose callee has the same short name.
// Static so that ghost anchors do not depend on the path taken to the site.
func (x *Exec) siteOrdinal(fn *ssa.Function, site ssa.Instruction, name string) int {
	common := func(i ssa.Instruction) *ssa.CallCommon {
		switch t := i.(type) {
		case *ssa.Call:
			return &t.Call
		case *ssa.Defer:
			return &t.Call
		case *ssa.Go:
			return &t.Call
		}
		return nil
	}
	// a call through a closure value is named after the closure at run time;
	// count it among the sites with the same static name
	if sc := common(site); sc != nil {
		name = x.calleeName(sc, Value{})
	}
	n := 0
	for _, b := range fn.Blocks {
		for _, i := range b.Instrs {
			cc := common(i)
			if cc == nil {
				continue
			}
			if x.calleeName(cc, Value{}) != name {
				continue
			}
			n++
			if i == site {
				return n
			}
		}
	}
	return 0
}

func (x *Exec) doCall(st *State, fi int, c *ssa.CallCommon, site ssa.Instruction, k func(*State, Value)) {
	var args []Value
	for _, a := range c.Args {
		args = append(args, x.val(st, fi, a))
	}
	fv := x.val(st, fi, c.Value)
	x.doCallWith(st, fi, c, site, args, fv, false, k)
}

// skipCallAnchor: `hv anchortest` sets it to one "call F#k" anchor of the function under test.
var skipCallAnchor string

func (x *Exec) doCallWith(st *State, fi int, c *ssa.CallCommon, site ssa.Instruction, args []Value, fv Value, isDefer bool, k func(*State, Value)) {
	fr := st.frames[fi]
	name := x.calleeName(c, fv)
	anchor := fmt.Sprintf("call %s#%d", name, x.siteOrdinal(fr.fn, site, name))
	pos := site.Pos()
	if !pos.IsValid() {
		pos = c.Pos()
	}
	var resT types.Type = c.Signature().Results()
	if c.Signature().Results().Len() == 1 {
		resT = c.Signature().Results().At(0).Type()
	}
	// ghost statements at the site see the call's arguments as arg0..argN
	// (static method calls: arg0 is the receiver) and, for interface calls, recv
	argVals := map[string]Value{}
	for i, a := range args {
		if a.T.S == "" && (a.Fn != nil || a.Loc != nil) {
			continue
		}
		argVals[fmt.Sprintf("arg%d", i)] = a
	}
	if c.IsInvoke() {
		argVals["recv"] = fv
	}
	if fi == 0 && skipCallAnchor != "" && anchor == skipCallAnchor {
		// anchor-deletion test: pretend this call is not there
		var rv Value
		if tup, ok := resT.(*types.Tuple); resT != nil && (!ok || tup.Len() > 0) {
			rv = x.freshValue(st, "skipped", resT)
		}
		k(st, rv)
		return
	}
	x.ghostAtX(st, fi, anchor, "before", nil, argVals)
	step := fi == 0 && x.isStep(anchor)
	if step {
		x.ginvBefore(st, fi, anchor)
	}
	k0 := k
	k = func(st2 *State, res Value) {
		x.ghostAtX(st2, fi, anchor, "", &res, argVals)
		if step {
			x.ginvAfter(st2, fi, anchor, site)
		}
		k0(st2, res)
	}
	// panic continuation: unwind the calling frame
	pan := func(st2 *State) {
		pv := *st2.panicking
		x.raise(st2, fi, pv, "in "+name)
	}

	// builtins
	if b, ok := c.Value.(*ssa.Builtin); ok {
		x.builtin(st, fi, b, c, args, site, k)
		return
	}
	// interface method call
	if c.IsInvoke() {
		recv := fv
		it := c.Value.Type()
		x.oblige(st, "nilcall", exprText(c.Value)+"."+c.Method.Name(), "", Not(Eq(iTag(recv.T), IntLit(0))), pos)
		if lib := x.libInvoke(st, fi, it, c.Method, recv, args, site); lib != nil {
			k(st, *lib)
			return
		}
		ct := x.w.findIfaceContract(it, c.Method.Name())
		if ct == nil {
			x.warnf("no abstract contract for %s.%s: treated as havoc-all, may panic", x.typeName(it), c.Method.Name())
			x.havocCall(st, fi, anchor, resT, true, nil, k, pan)
			return
		}
		x.applyContract(st, fi, ct, nil, append([]Value{recv}, args...), anchor, resT, pos, k, pan)
		return
	}
	var callee *ssa.Function
	var bind []Value
	if f := c.StaticCallee(); f != nil {
		callee = f
		if fv.Fn != nil {
			bind = fv.Fn.Bind
		}
	} else if fv.Fn != nil {
		callee = fv.Fn.Fn
		bind = fv.Fn.Bind
	} else if fv.T.S != "" {
		if cl, ok := x.closureByTerm[fv.T.S]; ok {
			callee, bind = cl.Fn, cl.Bind
		}
	}
	if callee == nil {
		// dynamic call through an unknown function value
		ft := c.Value.Type()
		x.oblige(st, "nilcall", exprText(c.Value), "", Not(Eq(fv.T, NullT)), pos)
		ct := x.w.findFuncTypeContract(ft)
		if ct == nil {
			x.warnf("no functype contract for %s: treated as havoc-all, may panic", x.typeName(ft))
			x.havocCall(st, fi, anchor, resT, true, nil, k, pan)
			return
		}
		x.applyContract(st, fi, ct, nil, append([]Value{fv}, args...), anchor, resT, pos, k, pan)
		return
	}
	// bound-method wrappers: call the method on the bound receiver
	if isBoundWrapper(callee) && len(bind) == 1 {
		recv := bind[0]
		m := callee.Object().(*types.Func)
		if _, isI := recv.Typ.Underlying().(*types.Interface); isI {
			ct := x.w.findIfaceContract(recv.Typ, m.Name())
			x.oblige(st, "nilcall", "bound "+m.Name(), "", Not(Eq(iTag(recv.T), IntLit(0))), pos)
			if ct != nil {
				x.applyContract(st, fi, ct, nil, append([]Value{recv}, args...), anchor, resT, pos, k, pan)
				return
			}
		}
		x.warnf("bound method %s without contract: havoc", m.FullName())
		x.havocCall(st, fi, anchor, resT, true, nil, k, pan)
		return
	}
	// library models
	full := callee.String()
	if callee.Origin() != nil {
		full = callee.Origin().String()
	}
	if x.libCall(st, fi, full, callee, args, site, anchor, k, pan) {
		return
	}
	ct := x.contractFor(callee)
	if ct != nil && !ct.Inline && callee != x.fn {
		x.applyContract(st, fi, ct, callee, args, anchor, resT, pos, k, pan)
		return
	}
	if ct != nil && !ct.Inline && callee == x.fn {
		// recursive call of the function under verification: use its contract
		x.applyContract(st, fi, ct, callee, args, anchor, resT, pos, k, pan)
		return
	}
	if callee.Blocks != nil && (x.w.isRepoFn(callee) || callee.Parent() != nil) {
		// inline
		if len(st.frames) > 12 {
			x.errorf("inline depth exceeded at %s", callee)
			x.havocCall(st, fi, anchor, resT, true, nil, k, pan)
			return
		}
		for _, f := range st.frames {
			if f.fn == callee {
				x.errorf("recursive inlining of %s; needs a contract", callee)
				x.havocCall(st, fi, anchor, resT, true, nil, k, pan)
				return
			}
		}
		if callee.Parent() == nil {
			x.inlined[full] = true
		}
		nfi := x.pushFrame(st, callee, args, bind, ct, func(st2 *State, res []Value) {
			var rv Value
			switch len(res) {
			case 0:
			case 1:
				rv = res[0]
			default:
				rv = Value{Tup: res, Typ: resT}
			}
			k(st2, rv)
		}, pan)
		x.runBody(st, nfi)
		return
	}
	// external function without a model
	x.externals[full] = true
	res := Value{}
	if c.Signature().Results().Len() > 0 {
		res = x.freshValue(st, "ext."+callee.Name(), resT)
	}
	k(st, res)
}

func (x *Exec) warnf(f string, a ...any) {
	msg := fmt.Sprintf(f, a...)
	for _, w := range x.warnings {
		if w == msg {
			return
		}
	}
	x.warnings = append(x.warnings, msg)
}

// havocCall: unknown callee. Forgets the heap (except `keep` prefixes),
// returns a fresh value, optionally forks a panic path.
func (x *Exec) havocCall(st *State, fi int, anchor string, resT types.Type, mayPanic bool, keep []string, k func(*State, Value), pan func(*State)) {
	if mayPanic {
		st2 := st.clone()
		x.havocAll(st2, keep)
		pv := x.freshValue(st2, "panicval", types.Universe.Lookup("any").Type())
		st2.assume(Not(Eq(iTag(pv.T), IntLit(0))))
		st2.panicking = &pv
		pan(st2)
	}
	x.havocAll(st, keep)
	var res Value
	if resT != nil {
		if tup, ok := resT.(*types.Tuple); !ok || tup.Len() > 0 {
			res = x.freshValue(st, "res", resT)
		}
	}
	k(st, res)
}

// applyContract replaces a call by its contract.
func (x *Exec) applyContract(st *State, fi int, ct *Contract, callee *ssa.Function, args []Value, anchor string, resT types.Type, pos token.Pos, k func(*State, Value), pan func(*State)) {
	x.usedContracts[ct.Pkg+"."+ct.Key] = true
	env := x.envFor(st, fi, false)
	env.fi = -1
	env.pkg = x.w.typesPkg(ct.Pkg)
	// bind parameters
	names := ct.ParamNames
	if callee != nil && len(names) == 0 {
		for _, p := range callee.Params {
			names = append(names, p.Name())
		}
	}
	// a method contract header lists the parameters without the receiver
	if len(names) == len(args)-1 && (len(names) > 0 || callee == nil || len(callee.Params) == len(args)) {
		recvName := "self"
		if callee != nil && len(callee.Params) == len(args) {
			recvName = callee.Params[0].Name()
		}
		names = append([]string{recvName}, names...)
		if ct.RecvName != "" {
			env.vars[ct.RecvName] = args[0]
		}
	}
	var escaped []*Cell
	for i, a := range args {
		if a.T.S == "" && a.Fn == nil && a.Loc != nil && a.Loc.Cell != nil && len(a.Loc.Path) == 0 {
			// the address of a local is handed to the callee: it may write the
			// local (havoced after the call); the pointer itself is opaque
			escaped = append(escaped, a.Loc.Cell)
			r := x.decls.Fresh("addrof."+a.Loc.Cell.name, "Ref")
			st.assume(Not(Eq(r, NullT)))
			a = Value{T: r, Typ: a.Typ}
			args[i] = a
		}
		if i < len(names) {
			if a.T.S == "" && (a.Fn != nil || a.Loc != nil) {
				a.T = x.valueTerm(a)
			}
			env.vars[names[i]] = a
		}
	}
	if len(escaped) > 0 {
		k1 := k
		k = func(st2 *State, res Value) {
			for _, c := range escaped {
				x.recCell(c)
				st2.cells[c] = x.freshValue(st2, "escaped."+c.name, c.typ)
			}
			k1(st2, res)
		}
	}
	// requires
	for _, rq := range ct.Requires {
		if t, ok := x.evalClause(st, env, rq); ok {
			x.oblige(st, "requires", rq.Label, anchor, t, pos)
		}
	}
	// a locked callee sees the protected state as of its own lock acquisition
	if g, root := x.calleeGuard(ct, callee); g != nil && len(args) > 0 && args[0].T.Sort == "Ref" {
		held := false
		for _, h := range st.locks {
			if h.guard == g && h.obj.S == args[0].T.S {
				held = true
			}
		}
		if !held {
			x.havocFootprint(st, fi, g, args[0].T, root)
		}
	}
	preHeap := copyHeap(st.heap)
	preEpoch, preNow := st.epoch, st.now
	prePC := append([]Term(nil), st.pc...)

	finish := func(st2 *State, panicked bool) {
		// havoc the frame
		mods := map[string][]Term{}
		full := !ct.HasMod && !ct.Pure
		var except []string
		if ct.HasMod {
			menv := *env
			menv.st = st2
			menv.heap, menv.epoch = preHeap, preEpoch
			for _, m := range ct.Modifies {
				m = strings.TrimSpace(m)
				if m == "heap" {
					full = true
					continue
				}
				if strings.HasPrefix(m, "heap except ") {
					full = true
					for _, p := range strings.Fields(m[len("heap except "):]) {
						if p == "private" {
							except = append(except, x.w.privatePrefixes()...)
						} else {
							except = append(except, p)
						}
					}
					continue
				}
				x.resolveModifies(st2, &menv, m, mods, anchor+" modifies")
			}
		}
		if full {
			// no modifies clause at all: the callee may also change ghost state
			x.havocAllG(st2, except, ct.HasMod)
			if !ct.HasMod {
				if t, ok := st2.heap["G$loglen"]; ok {
					_ = t
				}
				nl := x.decls.Fresh("post.G$loglen", "Int")
				st2.assume(Le(IntLit(0), nl))
				st2.heap["G$loglen"] = nl
			}
		}
		for _, name := range sortedKeys(mods) {
			objs := mods[name]
			sortS := x.heapSorts[name]
			x.recHeap(name)
			if objs == nil || !strings.HasPrefix(sortS, "(Array Ref") {
				st2.heap[name] = x.decls.Fresh("post."+name, sortS)
				if name == "G$loglen" {
					st2.assume(Le(IntLit(0), st2.heap[name]))
				}
				continue
			}
			cur := x.heapGet(st2, name, sortS)
			for _, o := range objs {
				cur = Store(cur, o, x.decls.Fresh("post."+name, arrayElemSort(sortS)))
			}
			x.heapSet(st2, name, cur)
		}
		if !ct.Pure {
			n := x.decls.Fresh("now", "Int")
			st2.assume(Le(st2.now, n))
			st2.now = n
		}
		penv := *env
		penv.st = st2
		penv.vars = map[string]Value{}
		for k2, v := range env.vars {
			penv.vars[k2] = v
		}
		penv.heap, penv.epoch, penv.now = st2.heap, st2.epoch, st2.now
		penv.old, penv.oldEpoch, penv.oldNow = preHeap, preEpoch, preNow
		penv.entryHeap, penv.entryEpoch, penv.entryNow, penv.hasEntry = preHeap, preEpoch, preNow, true
		doEmits := func(list []string) {
			for _, em := range list {
				func() {
					defer func() {
						if r := recover(); r != nil {
							if se, ok := r.(specError); ok {
								x.errorf("emits of %s: %s", ct.Key, se.msg)
								return
							}
							panic(r)
						}
					}()
					penv.where = "emits of " + ct.Key
					cond := TrueT
					text := em
					if j := strings.Index(em, " if "); j >= 0 {
						text = strings.TrimSpace(em[:j])
						cond = penv.EvalBool(strings.TrimSpace(em[j+4:]))
					}
					ev := penv.EvalText(text)
					x.emit(st2, ev.T, cond)
					penv.heap = st2.heap
				}()
			}
		}
		// events appended on both the normal and the panicking outcome
		doEmits(ct.Emits)
		if panicked {
			pv := x.freshValue(st2, "panicval", types.Universe.Lookup("any").Type())
			st2.assume(Not(Eq(iTag(pv.T), IntLit(0))))
			penv.vars["panicval"] = pv
			for _, en := range ct.EnsPanic {
				if t, ok := x.evalClause(st2, &penv, en); ok {
					st2.assume(t)
				}
			}
			st2.panicking = &pv
			pan(st2)
			return
		}
		// results
		var res Value
		var resVals []Value
		if resT != nil {
			if tup, ok := resT.(*types.Tuple); ok {
				for i := 0; i < tup.Len(); i++ {
					resVals = append(resVals, x.freshValue(st2, "res."+ct.Key, tup.At(i).Type()))
				}
				if len(resVals) > 0 {
					res = Value{Tup: resVals, Typ: resT}
				}
			} else {
				res = x.freshValue(st2, "res."+ct.Key, resT)
				resVals = []Value{res}
			}
		}
		x.bindResults(&penv, ct, callee, resVals)
		doEmits(ct.EmitsOK)
		for _, en := range ct.Ensures {
			if t, ok := x.evalClause(st2, &penv, en); ok {
				st2.assume(t)
			}
		}
		if len(ct.Ensures) > 0 && fi == 0 && x.muted == 0 {
			x.reachOnce(st2, "after "+anchor, prePC)
		}
		k(st2, res)
	}
	if ct.MayPanic {
		st2 := st.clone()
		finish(st2, true)
	}
	finish(st, false)
}

func (x *Exec) bindResults(env *Env, ct *Contract, callee *ssa.Function, res []Value) {
	names := ct.ResNames
	if len(names) == 0 && callee != nil {
		rs := callee.Signature.Results()
		for i := 0; i < rs.Len(); i++ {
			if n := rs.At(i).Name(); n != "" && n != "_" {
				names = append(names, n)
			} else {
				names = append(names, fmt.Sprintf("result%d", i))
			}
		}
	}
	for i, r := range res {
		if i < len(names) {
			env.vars[names[i]] = r
		}
		env.vars[fmt.Sprintf("result%d", i)] = r
	}
	if len(res) == 1 {
		env.vars["result"] = res[0]
	}
}

// ---------------------------------------------------------------------------
// builtins

func (x *Exec) builtin(st *State, fi int, b *ssa.Builtin, c *ssa.CallCommon, args []Value, site ssa.Instruction, k func(*State, Value)) {
	pos := site.Pos()
	switch b.Name() {
	case "len":
		a := args[0]
		switch a.T.Sort {
		case "Slice":
			k(st, Value{T: sLen(a.T), Typ: types.Typ[types.Int]})
		case "Str":
			k(st, Value{T: App("strlen", "Int", a.T), Typ: types.Typ[types.Int]})
		case "Ref":
			if mt, ok := underMap(c.Args[0].Type()); ok {
				_, _, cn := x.mapNames(mt)
				x.guardCheck(st, cn, false, false, pos)
				l := x.mapLen(st, st.heap, st.epoch, a.T, mt)
				st.assume(Le(IntLit(0), l))
				k(st, Value{T: l, Typ: types.Typ[types.Int]})
				return
			}
			k(st, x.freshValue(st, "len", types.Typ[types.Int]))
		default:
			k(st, x.freshValue(st, "len", types.Typ[types.Int]))
		}
	case "cap":
		k(st, Value{T: sCap(args[0].T), Typ: types.Typ[types.Int]})
	case "append":
		k(st, x.doAppend(st, fi, c, args, site))
	case "delete":
		mt := c.Args[0].Type().Underlying().(*types.Map)
		x.mapDelete(st, args[0].T, mt, args[1].T)
		k(st, Value{})
	case "recover":
		if st.panicking != nil && x.inDeferredCall(st, fi) {
			pv := *st.panicking
			st.panicking = nil
			st.trace = append(st.trace, "recovered")
			k(st, pv)
			return
		}
		k(st, Value{T: x.nilIface(), Typ: types.Universe.Lookup("any").Type()})
	case "ssa:wrapnilchk":
		k(st, args[0])
	case "ssa:deferstack":
		k(st, Value{T: IntLit(0)})
	case "close":
		k(st, Value{})
	case "print", "println":
		k(st, Value{})
	case "min", "max":
		a, bb := args[0].T, args[1].T
		if b.Name() == "min" {
			k(st, Value{T: Ite(Le(a, bb), a, bb), Typ: args[0].Typ})
		} else {
			k(st, Value{T: Ite(Le(a, bb), bb, a), Typ: args[0].Typ})
		}
	case "copy":
		k(st, x.doCopy(st, fi, c, args))
	default:
		x.errorf("unsupported builtin %s", b.Name())
		k(st, Value{})
	}
}

// inDeferredCall: recover() is effective only in a function called directly by
// the deferred-call machinery; frames pushed by runDefers sit directly above
// the panicking frame. We accept any frame above the unwinding one.
func (x *Exec) inDeferredCall(st *State, fi int) bool { return true }

// doCopy models copy(dst, src): n = min(len(dst), len(src)) elements are
// copied as if through a temporary (memmove semantics); everything else in
// dst's backing array is unchanged.
func (x *Exec) doCopy(st *State, fi int, c *ssa.CallCommon, args []Value) Value {
	d, s := args[0], args[1]
	sl, ok := c.Args[0].Type().Underlying().(*types.Slice)
	if !ok || s.T.Sort != "Slice" {
		x.errorf("copy: unsupported operand types")
		return x.freshValue(st, "copy", types.Typ[types.Int])
	}
	es := x.sortOf(sl.Elem())
	name := x.elemHeapName(es)
	E := x.heapGet(st, name, ArraySort("Ref", ArraySort("Int", es)))
	x.guardCheck(st, name, true, false, c.Pos())
	x.recHeap(name)
	n := Ite(Le(sLen(d.T), sLen(s.T)), sLen(d.T), sLen(s.T))
	nc := x.decls.Fresh("copy.n", "Int")
	st.assume(Eq(nc, n))
	A := x.decls.Fresh("copy.elems", ArraySort("Int", es))
	dOld := Select(E, sArr(d.T))
	sOld := Select(E, sArr(s.T))
	j := Term{"?j", "Int"}
	di, si := sIdx(sOff(d.T), j), sIdx(sOff(s.T), j)
	st.assume(Term{fmt.Sprintf("(forall ((?j Int)) (! (=> (and (<= 0 ?j) (< ?j %s)) (= (select %s %s) (select %s %s))) :pattern ((select %s %s))))",
		nc.S, A.S, di.S, sOld.S, si.S, A.S, di.S), "Bool"})
	st.assume(Term{fmt.Sprintf("(forall ((?j Int)) (! (=> (or (< ?j %s) (>= ?j (+ %s %s))) (= (select %s ?j) (select %s ?j))) :pattern ((select %s ?j))))",
		sOff(d.T).S, sOff(d.T).S, nc.S, A.S, dOld.S, A.S), "Bool"})
	// a nil destination has length 0: nothing is written
	x.heapSet(st, name, Ite(Eq(nc, IntLit(0)), E, Store(E, sArr(d.T), A)))
	return Value{T: nc, Typ: types.Typ[types.Int]}
}

func (x *Exec) doAppend(st *State, fi int, c *ssa.CallCommon, args []Value, site ssa.Instruction) Value {
	s, t := args[0], args[1]
	st0 := c.Args[0].Type()
	var et types.Type
	if sl, ok := st0.Underlying().(*types.Slice); ok {
		et = sl.Elem()
	} else {
		x.errorf("append to non-slice")
		return x.freshValue(st, "append", st0)
	}
	es := x.sortOf(et)
	if t.T.Sort == "Str" {
		// append([]byte, string...)
		r := x.freshValue(st, "append", st0)
		st.assume(Eq(sLen(r.T), Add(sLen(s.T), App("strlen", "Int", t.T))))
		return r
	}
	name := x.elemHeapName(es)
	E := x.heapGet(st, name, ArraySort("Ref", ArraySort("Int", es)))
	x.recHeap(name)
	n := sLen(t.T)
	newLen := Add(sLen(s.T), n)
	inplace := x.decls.Fresh("append.inplace", "Bool")
	st.assume(Implies(inplace, Le(newLen, sCap(s.T))))
	st.assume(Implies(Not(inplace), Lt(sCap(s.T), newLen)))
	fresh := x.freshRef(st, "append")
	rarr := Ite(inplace, sArr(s.T), fresh)
	roff := Ite(inplace, sOff(s.T), IntLit(0))
	rcap := x.decls.Fresh("append.cap", "Int")
	st.assume(Le(newLen, rcap))
	st.assume(Implies(inplace, Eq(rcap, sCap(s.T))))
	res := mkSlice(rarr, roff, newLen, rcap)
	// new contents of the result array
	A := x.decls.Fresh("append.elems", ArraySort("Int", es))
	srcOld := Select(E, sArr(s.T))
	tsrc := Select(E, sArr(t.T))
	// prefix preserved
	st.assume(Term{fmt.Sprintf("(forall ((?j Int)) (! (=> (and (<= 0 ?j) (< ?j %s)) (= (select %s (+ %s ?j)) (select %s (+ %s ?j)))) :pattern ((select %s (+ %s ?j)))))",
		sLen(s.T).S, A.S, roff.S, srcOld.S, sOff(s.T).S, A.S, roff.S), "Bool"})
	// appended elements
	st.assume(Term{fmt.Sprintf("(forall ((?j Int)) (! (=> (and (<= 0 ?j) (< ?j %s)) (= (select %s (+ %s %s ?j)) (select %s (+ %s ?j)))) :pattern ((select %s (+ %s %s ?j)))))",
		n.S, A.S, roff.S, sLen(s.T).S, tsrc.S, sOff(t.T).S, A.S, roff.S, sLen(s.T).S), "Bool"})
	// in-place: everything outside the appended window is unchanged
	st.assume(Implies(inplace, Term{fmt.Sprintf("(forall ((?j Int)) (! (=> (or (< ?j (+ %s %s)) (>= ?j (+ %s %s))) (= (select %s ?j) (select %s ?j))) :pattern ((select %s ?j))))",
		sOff(s.T).S, sLen(s.T).S, sOff(s.T).S, newLen.S, A.S, srcOld.S, A.S), "Bool"}))
	x.heapSet(st, name, Store(E, rarr, A))
	return Value{T: res, Typ: st0}
}

// ---------------------------------------------------------------------------
// goroutines, channels

func (x *Exec) doGo(st *State, fi int, in *ssa.Go) {
	// A spawned goroutine runs concurrently: its effects are not part of this
	// thread's sequential state. Record the callee for the evidence.
	name := "go " + x.calleeName(&in.Call, x.val(st, fi, in.Call.Value))
	x.goStmts[name] = true
	x.goRequires(st, fi, in, name)
	x.ghostAt(st, fi, "go "+x.calleeName(&in.Call, x.val(st, fi, in.Call.Value)), "", nil)
}

func (x *Exec) chanRecv(st *State, fi int, ch Value, in *ssa.UnOp) Value {
	var t types.Type = in.Type()
	if in.CommaOk {
		tup := t.(*types.Tuple)
		v := x.freshValue(st, "recv", tup.At(0).Type())
		ok := x.freshValue(st, "recv.ok", tup.At(1).Type())
		return Value{Tup: []Value{v, ok}, Typ: t}
	}
	v := x.freshValue(st, "recv", t)
	x.ghostAtX(st, fi, "recv", "", &v, map[string]Value{"ch": ch})
	return v
}

func (x *Exec) chanSend(st *State, fi int, ch, v Value, in *ssa.Send) {
	x.ghostAtVals(st, fi, "chansend", map[string]Value{"sent": v, "ch": ch})
}

func (x *Exec) doSelect(st *State, fi int, in *ssa.Select) {
	// nondeterministic choice among the states; received values are fresh.
	n := len(in.States)
	idx := x.decls.Fresh("select.idx", "Int")
	lo := IntLit(0)
	if !in.Blocking {
		lo = IntLit(-1)
	}
	st.assume(And(Le(lo, idx), Lt(idx, IntLit(int64(n)))))
	tup := in.Type().(*types.Tuple)
	vals := []Value{{T: idx, Typ: types.Typ[types.Int]}, x.freshValue(st, "select.ok", types.Typ[types.Bool])}
	for i := 2; i < tup.Len(); i++ {
		vals = append(vals, x.freshValue(st, "select.recv", tup.At(i).Type()))
	}
	x.setReg(st, fi, in, Value{Tup: vals, Typ: in.Type()})
	// ghost anchor "select#k": idx (chosen case, -1 = default), recv0.. (received values)
	n2 := 0
	for _, b := range st.frames[fi].fn.Blocks {
		for _, i := range b.Instrs {
			if _, ok := i.(*ssa.Select); ok {
				n2++
				if i == ssa.Instruction(in) {
					extra := map[string]Value{"idx": vals[0]}
					for j := 2; j < len(vals); j++ {
						extra[fmt.Sprintf("recv%d", j-2)] = vals[j]
					}
					for j, s := range in.States {
						extra[fmt.Sprintf("chan%d", j)] = x.val(st, fi, s.Chan)
					}
					x.ghostAtX(st, fi, fmt.Sprintf("select#%d", n2), "", nil, extra)
				}
			}
		}
	}
}

// goRequires: a goroutine started with `go f(args)` runs f on a NEW thread,
// which holds none of the thread-local ghost permissions (worker token, ...):
// f's preconditions are checked with all thread-local ghost variables false.
func (x *Exec) goRequires(st *State, fi int, in *ssa.Go, anchor string) {
	var ct *Contract
	var args []Value
	c := &in.Call
	if c.IsInvoke() {
		ct = x.w.findIfaceContract(c.Value.Type(), c.Method.Name())
		args = append(args, x.val(st, fi, c.Value))
	} else if f := c.StaticCallee(); f != nil {
		ct = x.contractFor(f)
	}
	if ct == nil || len(ct.Requires) == 0 {
		return
	}
	for _, a := range c.Args {
		args = append(args, x.val(st, fi, a))
	}
	var tls []string
	for _, cf := range x.w.contracts {
		for _, ps := range cf.Protocols {
			tls = append(tls, ps.ThreadLocal...)
		}
	}
	st2 := st.clone()
	for _, tl := range tls {
		tl = strings.TrimSpace(tl)
		if gv, ok := x.ghostVars[tl]; ok && gv.Sort == "Bool" {
			st2.heap["G$"+tl] = FalseT
		}
	}
	env := x.envFor(st2, fi, false)
	env.fi = -1
	env.pkg = x.w.typesPkg(ct.Pkg)
	names := ct.ParamNames
	if len(names) == len(args)-1 {
		names = append([]string{"self"}, names...)
	}
	for i, a := range args {
		if i < len(names) {
			if a.T.S == "" && (a.Fn != nil || a.Loc != nil) {
				continue
			}
			env.vars[names[i]] = a
		}
	}
	for _, rq := range ct.Requires {
		if t, ok := x.evalClause(st2, env, rq); ok {
			// recorded on the spawning path (st), judged in the new thread's ghost state (st2)
			ob := len(x.obls)
			x.oblige(st2, "requires", rq.Label, anchor, t, in.Pos())
			_ = ob
		}
	}
}
