package main

// Replay of solver counterexamples against the real code (drivers are
// in-package Go tests injected with `go test -overlay`).

func tryReplay(w *World, verif, prop string, ob *Obligation) *ReplayOutcome {
	d := replayDrivers[ob.Func]
	if d == nil {
		return nil
	}
	return d(w, verif, prop, ob)
}

var replayDrivers = map[string]func(w *World, verif, prop string, ob *Obligation) *ReplayOutcome{}
