package main

import (
	"encoding/json"
	"fmt"
	"os"
	"strings"
)

// Replay of solver counterexamples against the real code (drivers are
// in-package Go tests injected with `go test -overlay`).

func tryReplay(w *World, verif, prop string, ob *Obligation) *ReplayOutcome {
	d := replayDrivers[ob.Func]
	if d == nil {
		return nil
	}
	return d(w, verif, prop, ob)
}

var replayDrivers = map[string]func(w *World, verif, prop string, ob *Obligation) *ReplayOutcome{}

// hv replay <path> : re-examine a recorded violation. Prints the failed
// obligation, where it is anchored, the recorded counterexample (if the solver
// gave one) and re-runs the recorded verification condition; exit 1 while the
// obligation is still not discharged.
func cmdReplay(args []string) {
	if len(args) < 1 {
		fmt.Fprintln(os.Stderr, "usage: hv replay <replay.json>")
		os.Exit(2)
	}
	data, err := os.ReadFile(args[0])
	if err != nil {
		fmt.Fprintln(os.Stderr, err)
		os.Exit(2)
	}
	var rf ReplayFile
	if err := json.Unmarshal(data, &rf); err != nil {
		fmt.Fprintln(os.Stderr, "bad replay file:", err)
		os.Exit(2)
	}
	fmt.Printf("property:   %s\nobligation: %s\nfunction:   %s\nposition:   %s\npath:       %s\nrecorded:   %s by %s\n",
		rf.Property, rf.Obligation, rf.Function, rf.Position, strings.Join(rf.Path, " "), rf.Status, rf.Solver)
	if rf.Model != "" {
		fmt.Println("model (arguments, loop variables):")
		fmt.Println(rf.Model)
	}
	if rf.Replay != nil {
		fmt.Printf("replay on the real code: driver=%s input=%s observed=%s reproduced=%v\n", rf.Replay.Driver, rf.Replay.Input, rf.Replay.Observed, rf.Replay.Reproduced)
	} else {
		fmt.Println("replay on the real code: no-failing-input-found (" + rf.Note + ")")
	}
	q, err := os.ReadFile(rf.QueryFile)
	if err != nil {
		fmt.Println("recorded query missing:", err)
		os.Exit(1)
	}
	r := Solve(string(q), 20, false)
	fmt.Printf("re-running the recorded verification condition: %s (%s, %.1fs)\n", r.Status, r.Solver, r.Secs)
	if r.Status == "unsat" {
		fmt.Println("the recorded condition is now discharged")
		os.Exit(0)
	}
	fmt.Printf("VIOLATION property=%s replay=%s\n", rf.Property, args[0])
	os.Exit(1)
}
