package main

import (
	"encoding/json"
	"fmt"
	"os"
	"os/exec"
	"path/filepath"
	"strings"
)

// Replay of solver counterexamples against the real code (drivers are
// in-package Go tests injected with `go test -overlay`).

// ReplayDriver: a scenario test kept under /verif/replay that exercises the
// real code on the path a named obligation guards. The test asserts the
// property; when the obligation fails and the test fails too, the violation
// has a concrete failing run on the real code.
type ReplayDriver struct {
	Match string `json:"match"` // substring of the obligation name
	Pkg   string `json:"pkg"`   // package directory in the repository
	File  string `json:"file"`  // test file, relative to /verif
	Test  string `json:"test"`  // test function
	Note  string `json:"note,omitempty"`
	Extra []string `json:"extra_files,omitempty"` // helper test files injected alongside
}

func loadDrivers(verif string) []ReplayDriver {
	var ds []ReplayDriver
	data, err := os.ReadFile(filepath.Join(verif, "replay", "drivers.json"))
	if err == nil {
		_ = json.Unmarshal(data, &ds)
	}
	return ds
}

// runReplayTest injects file into pkg with `go test -overlay` and runs one
// test. reproduced = the test failed (it asserts the property).
func runReplayTest(repo, verif, pkg, file, test string, extra ...string) (reproduced bool, out string) {
	dir, err := os.MkdirTemp("", "hvreplay")
	if err != nil {
		return false, err.Error()
	}
	defer os.RemoveAll(dir)
	src := filepath.Join(verif, file)
	dst := filepath.Join(repo, pkg, filepath.Base(file))
	repl := map[string]string{dst: src}
	for _, e := range extra {
		repl[filepath.Join(repo, pkg, filepath.Base(e))] = filepath.Join(verif, e)
	}
	ov, _ := json.Marshal(map[string]any{"Replace": repl})
	ovf := filepath.Join(dir, "ov.json")
	os.WriteFile(ovf, ov, 0o644)
	cmd := exec.Command("go", "test", "-overlay", ovf, "-vet=off", "-count=1", "-timeout", "90s", "-run", "^"+test+"$", "./"+pkg+"/")
	cmd.Dir = repo
	cmd.Env = append(os.Environ(), "GOFLAGS=-mod=mod", "GOPROXY=off", "GOSUMDB=off", "GOTOOLCHAIN=local")
	b, err := cmd.CombinedOutput()
	text := string(b)
	var keep []string
	for _, l := range strings.Split(text, "\n") {
		if strings.Contains(l, "level=") || strings.HasPrefix(l, "time=") || strings.Contains(l, " ERROR ") || strings.Contains(l, " WARN ") {
			continue
		}
		keep = append(keep, l)
	}
	text = strings.Join(keep, "\n")
	if len(text) > 3000 {
		text = text[:3000] + "\n...[truncated]"
	}
	if err == nil {
		return false, text
	}
	if strings.Contains(text, "--- FAIL") || strings.Contains(text, "panic:") || strings.Contains(text, "FAIL\t") {
		return true, text
	}
	return false, text
}

func tryReplay(w *World, verif, prop string, ob *Obligation) *ReplayOutcome {
	for _, d := range loadDrivers(verif) {
		if d.Match != "" && strings.Contains(ob.Name, d.Match) {
			rep, out := runReplayTest(w.repo, verif, d.Pkg, d.File, d.Test, d.Extra...)
			return &ReplayOutcome{Driver: d.File + ":" + d.Test, Input: d.Note, Observed: out, Reproduced: rep}
		}
	}
	return nil
}

// hv replay <path> : re-examine a recorded violation. Prints the failed
// obligation, where it is anchored, the recorded counterexample (if the solver
// gave one) and re-runs the recorded verification condition; exit 1 while the
// obligation is still not discharged.
func cmdReplay(args []string) {
	if len(args) < 1 {
		fmt.Fprintln(os.Stderr, "usage: hv replay <replay.json>")
		os.Exit(2)
	}
	data, err := os.ReadFile(args[0])
	if err != nil {
		fmt.Fprintln(os.Stderr, err)
		os.Exit(2)
	}
	var rf ReplayFile
	if err := json.Unmarshal(data, &rf); err != nil {
		fmt.Fprintln(os.Stderr, "bad replay file:", err)
		os.Exit(2)
	}
	fmt.Printf("property:   %s\nobligation: %s\nfunction:   %s\nposition:   %s\npath:       %s\nrecorded:   %s by %s\n",
		rf.Property, rf.Obligation, rf.Function, rf.Position, strings.Join(rf.Path, " "), rf.Status, rf.Solver)
	if rf.Model != "" {
		fmt.Println("model (arguments, loop variables):")
		fmt.Println(rf.Model)
	}
	if rf.Replay != nil {
		fmt.Printf("replay on the real code: driver=%s input=%s observed=%s reproduced=%v\n", rf.Replay.Driver, rf.Replay.Input, rf.Replay.Observed, rf.Replay.Reproduced)
	} else {
		fmt.Println("replay on the real code: no-failing-input-found (" + rf.Note + ")")
	}
	q, err := os.ReadFile(rf.QueryFile)
	if err != nil {
		fmt.Println("recorded query missing:", err)
		os.Exit(1)
	}
	r := Solve(string(q), 20, false)
	fmt.Printf("re-running the recorded verification condition: %s (%s, %.1fs)\n", r.Status, r.Solver, r.Secs)
	if r.Status == "unsat" {
		fmt.Println("the recorded condition is now discharged")
		os.Exit(0)
	}
	fmt.Printf("VIOLATION property=%s replay=%s\n", rf.Property, args[0])
	os.Exit(1)
}
