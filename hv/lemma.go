package main

// Stand-alone lemmas over ghost functions: hyps ==> concl, for all vars.

import (
	"fmt"
	"strings"
)

func VerifyLemma(w *World, cf *ContractFile, lm *Lemma, prop string) ([]*Obligation, []string) {
	name := lm.Name
	parts := strings.Fields(name)
	if len(parts) == 0 {
		return nil, nil
	}
	// "lemma C01.glue" : property from the label prefix
	if !strings.HasPrefix(parts[0], prop+".") {
		return nil, nil
	}
	x := NewExec(w)
	x.fnName = relOf(cf.Pkg) + ".lemma"
	x.pkg = w.typesPkg(cf.Pkg)
	var errs []string
	st := &State{cells: map[*Cell]Value{}, heap: map[string]Term{}, now: IntLit(0), oldNow: IntLit(0), oldHeap: map[string]Term{}}
	env := &Env{x: x, st: st, fi: -1, vars: map[string]Value{}, heap: st.heap, now: st.now, old: st.oldHeap, oldNow: st.now, pkg: x.pkg, where: "lemma " + parts[0]}
	for _, v := range lm.Vars {
		f := strings.SplitN(strings.TrimSpace(v), " ", 2)
		if len(f) != 2 {
			errs = append(errs, "lemma "+name+": bad var "+v)
			continue
		}
		env.vars[f[0]] = Value{T: x.decls.Const("lemma."+f[0], strings.TrimSpace(f[1]))}
	}
	func() {
		defer func() {
			if r := recover(); r != nil {
				errs = append(errs, fmt.Sprintf("lemma %s: %v", name, r))
			}
		}()
		for _, h := range lm.Hyps {
			st.assume(env.EvalBool(h.Text))
		}
		x.reach(st, parts[0])
		for _, c := range lm.Concl {
			label := c.Label
			if label == "" {
				label = parts[0]
			}
			x.oblige(st, "lemma", label, "", env.EvalBool(c.Text), 0)
		}
	}()
	for _, ob := range x.obls {
		ob.Query = x.query(ob, true)
	}
	errs = append(errs, x.errors...)
	return x.obls, errs
}
