#!/bin/sh
# Runs every registered quick check (writes evidence); prints one line per check.
cd /verif || exit 2
rc=0
for p in $(python3 -c "import json;print(' '.join(c['property_id'] for c in json.load(open('MANIFEST.json'))['checks']))"); do
  bin/hv check $p --tier ${1:-quick} > /tmp/run_all_$p.out 2>&1; e=$?
  echo "$p exit=$e $(tail -1 /tmp/run_all_$p.out)"
  grep -E "^(VIOLATION|UNDECIDED|VACUOUS|SELFTEST-MISS|TOOL-ERROR)" /tmp/run_all_$p.out | cut -c1-200
  [ $e -ne 0 ] && rc=1
  rm -f /tmp/run_all_$p.out
done
exit $rc
