#!/usr/bin/env python3
"""Applies every kept seeded change (seeded/<name>/patch.diff) to /repo, runs the quick checks of the properties given
in its meta.json (plus any named on the command line), reverts, and records in meta.json which obligations caught it.
/repo must be clean. usage: seed_matrix.py [name ...]"""
import json, os, subprocess, sys, glob, re
os.chdir('/verif')
if subprocess.run(['git','-C','/repo','status','--porcelain'],capture_output=True,text=True).stdout.strip():
    print('REFUSING: /repo has uncommitted changes'); sys.exit(2)
names = sys.argv[1:] or sorted(os.path.basename(d) for d in glob.glob('seeded/*') if os.path.isdir(d))
rows=[]
for n in names:
    d='seeded/'+n
    meta=json.load(open(d+'/meta.json'))
    props=meta.get('check_with') or [meta['property']]
    r=subprocess.run(['git','-C','/repo','apply','--check',os.path.abspath(d+'/patch.diff')],capture_output=True,text=True)
    if r.returncode!=0:
        rows.append((n,'patch does not apply to HEAD','')); continue
    subprocess.run(['git','-C','/repo','apply',os.path.abspath(d+'/patch.diff')],check=True)
    det={}
    try:
        for p in props:
            out=subprocess.run(['bin/hv','check',p,'--tier','quick','--no-evidence'],capture_output=True,text=True).stdout
            viol=[l.split('replay=')[1].split()[0].split('/')[-1].replace('.json','') for l in out.split('\n') if l.startswith('VIOLATION')]
            und=[l[:160] for l in out.split('\n') if l.startswith('UNDECIDED')]
            det[p]={'violations':viol,'undecided':und[:3]}
    finally:
        subprocess.run(['git','-C','/repo','checkout','--','.'],check=True)
    caught=[p for p in det if det[p]['violations']]
    meta['detected_by']=det
    meta['caught']=bool(caught)
    json.dump(meta,open(d+'/meta.json','w'),indent=1)
    rows.append((n,'CAUGHT by '+','.join(caught) if caught else 'MISSED', '; '.join(v for p in det for v in det[p]['violations'][:2])[:150]))
for r in rows: print('%-50s %-22s %s'%r)
