#!/usr/bin/env python3
"""Applies every kept seeded change (seeded/<name>/patch.diff) to a scratch worktree of /repo's HEAD, runs the quick
checks named in its meta.json (check_with, default: its property) against that worktree (hv check --repo), and records in
meta.json which obligations caught it. /repo itself is not touched. usage: seed_matrix.py [name ...]"""
import json, os, subprocess, sys, glob
os.chdir('/verif')
WT='/tmp/seedmatrix_wt'
subprocess.run(['git','-C','/repo','worktree','remove','--force',WT],capture_output=True)
subprocess.run(['git','-C','/repo','worktree','add','--detach',WT,'HEAD'],check=True,capture_output=True)
names = sys.argv[1:] or sorted(os.path.basename(d) for d in glob.glob('seeded/*') if os.path.isdir(d))
rows=[]
try:
    for n in names:
        d='seeded/'+n
        if not os.path.exists(d+'/meta.json'):
            rows.append((n,'not kept (no meta.json)','')); continue
        meta=json.load(open(d+'/meta.json'))
        props=meta.get('check_with') or [meta['property']]
        patch=os.path.abspath(d+'/patch.diff')
        r=subprocess.run(['git','-C',WT,'apply','--check',patch],capture_output=True,text=True)
        if r.returncode!=0:
            rows.append((n,'patch does not apply to HEAD','')); continue
        subprocess.run(['git','-C',WT,'apply',patch],check=True)
        det={}
        try:
            for p in props:
                out=subprocess.run(['bin/hv','check',p,'--tier','quick','--no-evidence','--repo',WT],capture_output=True,text=True).stdout
                viol=[l.split('replay=')[1].split()[0].split('/')[-1].replace('.json','') for l in out.split('\n') if l.startswith('VIOLATION')]
                und=[l[:160] for l in out.split('\n') if l.startswith('UNDECIDED')]
                det[p]={'violations':viol,'undecided':und[:3]}
        finally:
            subprocess.run(['git','-C',WT,'checkout','--','.'],check=True)
            subprocess.run(['git','-C',WT,'clean','-fdq'],check=True)
        caught=[p for p in det if det[p]['violations']]
        meta['detected_by']=det
        meta['caught']=bool(caught)
        json.dump(meta,open(d+'/meta.json','w'),indent=1)
        rows.append((n,'CAUGHT by '+','.join(caught) if caught else ('UNDECIDED only' if any(det[p]['undecided'] for p in det) else 'MISSED'), '; '.join(v for p in det for v in det[p]['violations'][:2])[:150]))
        print('%-50s %-22s %s'%rows[-1], flush=True)
finally:
    subprocess.run(['git','-C','/repo','worktree','remove','--force',WT],capture_output=True)
