#!/usr/bin/env python3
"""Writes harmless/MATRIX.md from harmless/*/result.json."""
import json, glob, os
os.chdir('/verif')
rows=[]
for d in sorted(glob.glob('harmless/*/')):
    n=d.split('/')[1]
    rp=d+'result.json'
    if not os.path.exists(rp): continue
    r=json.load(open(rp))
    ex={p:v['exit'] for p,v in r['checks'].items()}
    verdict='silent' if all(e==0 for e in ex.values()) else ('FALSE ALARM' if any(v['violations'] for v in r['checks'].values()) else 'undecided')
    why=''
    if verdict=='undecided':
        for v in r['checks'].values():
            for u in v['undecided']:
                if 'not decided' in u: continue
                why=u.replace('UNDECIDED: ','')[:140]; break
            if why: break
    first=''
    np=d+'notes.md'
    if os.path.exists(np):
        for l in open(np):
            l=l.strip()
            if l and not l.startswith('#'):
                first=l[:110]; break
    rows.append((n,verdict,' '.join('%s=%d'%(p,e) for p,e in ex.items()),', '.join(r['files']),first,why))
with open('harmless/MATRIX.md','w') as f:
    f.write('# Behaviour-preserving edits (proposed by independent sub-agents) against the quick checks\n\n')
    f.write('exit 0 = silent (wanted); exit 2 = undecided: a contract clause names syntax the edit removed, nothing is claimed; exit 1 would be a false alarm.\n\n')
    f.write('| edit | verdict | checks (exit codes) | files | what the edit does | why undecided |\n|---|---|---|---|---|---|\n')
    for r in rows: f.write('| '+' | '.join(x.replace('|','/') for x in r)+' |\n')
    tot=len(rows); s=sum(1 for r in rows if r[1]=='silent'); u=sum(1 for r in rows if r[1]=='undecided'); fa=tot-s-u
    f.write('\n%d edits: %d silent, %d undecided, %d false alarms.\n'%(tot,s,u,fa))
print(open('harmless/MATRIX.md').read()[-200:])
