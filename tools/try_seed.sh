#!/bin/sh
# usage: tools/try_seed.sh <seed dir with patch.diff> <property>...
# Applies the patch to /repo, runs the quick checks (no evidence), reverts.
d=$1; shift
cd /repo || exit 2
if [ -n "$(git status --porcelain)" ]; then echo "REFUSING: /repo has uncommitted changes (commit the contract files first)"; exit 2; fi
git apply --check "$d/patch.diff" || { echo "patch does not apply"; exit 2; }
git apply "$d/patch.diff"
for p in "$@"; do
  (cd /verif && bin/hv check $p --tier quick --no-evidence >/tmp/try_seed.out 2>&1; echo "exit=$?"; grep -E "^(VIOLATION|UNDECIDED|KNOWN|hv:)" /tmp/try_seed.out | cut -c1-200)
done
git -C /repo checkout -- . 
git -C /repo status --short
rm -f /tmp/try_seed.out
