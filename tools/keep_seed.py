#!/usr/bin/env python3
"""Confirms a seeded change in a scratch worktree of /repo's HEAD and, if confirmed, stores it under /verif/seeded/<name>/.
usage: keep_seed.py <seed dir (patch.diff, zz_seed_demo_test.go, DEMO_PKG, notes.md)> <name> <property> [--patch other.diff]
Confirmation = (a) the existing suite passes with the change, (b) the demo fails with it, (c) the demo passes without it."""
import json, os, subprocess, sys, shutil, re
ENV = dict(os.environ, GOFLAGS="-mod=mod", GOPROXY="off", GOSUMDB="off", GOTOOLCHAIN="local")
ISO = ["unshare", "-n", "sh", "-c"]
def sh(cmd, cwd, iso=False, timeout=900):
    if iso:
        cmd = "ip link set lo up; ip link set lo multicast on; ip route add 224.0.0.0/4 dev lo 2>/dev/null; " + cmd
        p = subprocess.run(ISO + [cmd], cwd=cwd, env=ENV, capture_output=True, text=True, timeout=timeout)
    else:
        p = subprocess.run(["sh", "-c", cmd], cwd=cwd, env=ENV, capture_output=True, text=True, timeout=timeout)
    return p.returncode, (p.stdout + p.stderr)
def main():
    d, name, prop = sys.argv[1], sys.argv[2], sys.argv[3]
    patch = os.path.join(d, "patch.diff")
    if "--patch" in sys.argv:
        patch = sys.argv[sys.argv.index("--patch") + 1]
    pkg = open(os.path.join(d, "DEMO_PKG")).read().strip()
    demo = os.path.join(d, "zz_seed_demo_test.go")
    wt = "/tmp/confirm_" + re.sub(r"\W", "_", name)
    subprocess.run(["git", "-C", "/repo", "worktree", "remove", "--force", wt], capture_output=True)
    subprocess.run(["git", "-C", "/repo", "worktree", "add", "--detach", wt, "HEAD"], check=True, capture_output=True)
    res = {}
    try:
        rc, out = sh("git apply --check %s && git apply %s" % (patch, patch), wt)
        if rc != 0:
            print("patch does not apply to HEAD:", out[:400]); return 2
        rc, out = sh("go build ./... ", wt)
        if rc != 0:
            print("does not compile:", out[:400]); return 2
        # (a) suite with the change (cluster tests are timing sensitive: up to 3 attempts)
        ok = False
        for attempt in range(3):
            rc, out = sh("go test -vet=off -count=1 -timeout 10m ./... 2>&1 | grep -v '^time=\\|level=' | tail -15", wt, iso=True)
            fails = [l for l in out.split("\n") if l.startswith("FAIL") or l.startswith("--- FAIL") or "panic:" in l]
            if not fails:
                ok = True; break
        res["suite_with_change"] = "pass (attempt %d)" % (attempt + 1) if ok else "FAIL: " + " | ".join(fails)[:300]
        shutil.copy(demo, os.path.join(wt, pkg, "zz_seed_demo_test.go"))
        m = re.search(r"func (Test\w+)\(", open(demo).read())
        test = m.group(1)
        rc, out = sh("go test -vet=off -count=1 -timeout 120s -run '^%s$' ./%s/ 2>&1 | grep -v '^time=\\|level=' | tail -8" % (test, pkg), wt, iso=True)
        res["demo_with_change"] = "fail" if ("FAIL" in out or "panic:" in out) else "PASS(unexpected)"
        res["demo_with_change_output"] = out[-600:]
        sh("git apply -R %s" % patch, wt)
        rc, out = sh("go test -vet=off -count=1 -timeout 120s -run '^%s$' ./%s/ 2>&1 | grep -v '^time=\\|level=' | tail -5" % (test, pkg), wt, iso=True)
        res["demo_without_change"] = "pass" if ("ok " in out and "FAIL" not in out) else "FAIL(unexpected): " + out[-300:]
    finally:
        subprocess.run(["git", "-C", "/repo", "worktree", "remove", "--force", wt], capture_output=True)
    print(json.dumps(res, indent=1))
    confirmed = res.get("suite_with_change", "").startswith("pass") and res.get("demo_with_change") == "fail" and res.get("demo_without_change") == "pass"
    if not confirmed:
        print("NOT CONFIRMED"); return 1
    out = "/verif/seeded/" + name
    os.makedirs(out, exist_ok=True)
    shutil.copy(patch, out + "/patch.diff")
    shutil.copy(demo, out + "/zz_seed_demo_test.go")
    notes = open(os.path.join(d, "notes.md")).read() if os.path.exists(os.path.join(d, "notes.md")) else ""
    open(out + "/notes.md", "w").write(notes)
    head = subprocess.run(["git", "-C", "/repo", "rev-parse", "--short", "HEAD"], capture_output=True, text=True).stdout.strip()
    meta = {"property": prop, "demo_pkg": pkg, "demo_test": test, "confirmed_on_repo_commit": head,
            "what_i_ran": {"suite_with_change": "unshare -n (private network namespace, multicast on lo): go test -vet=off -count=1 ./...  -> " + res["suite_with_change"],
                           "demo_with_change": "go test -run '^%s$' ./%s/ -> fail" % (test, pkg), "demo_without_change": "same -> pass"},
            "needs_to_manifest": "see notes.md (written by the sub-agent that proposed the change)", "detected_by": "filled in by tools/seed_matrix.py"}
    json.dump(meta, open(out + "/meta.json", "w"), indent=1)
    print("KEPT", out); return 0
sys.exit(main())
