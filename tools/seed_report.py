#!/usr/bin/env python3
"""Writes seeded/MATRIX.md from the meta.json files (which checks catch which seeded change)."""
import json, glob, os
rows=[]
for d in sorted(glob.glob('/verif/seeded/*/meta.json')):
    m=json.load(open(d)); n=os.path.basename(os.path.dirname(d))
    det=m.get('detected_by')
    if not isinstance(det,dict):
        rows.append((n,m['property'],'not run yet','')); continue
    caught=[p for p in det if det[p]['violations']]
    first='; '.join(v for p in det for v in det[p]['violations'][:1])
    rows.append((n,m['property'],('caught by '+', '.join(caught)) if caught else ('undecided (contract mismatch) only' if any(det[p]['undecided'] for p in det) else 'MISSED'),first))
out=['# Seeded changes and the checks that catch them','',
 'Each directory holds a change proposed by an independent sub-agent that saw only the property text (patch.diff), its demonstration test, notes.md and meta.json. '
 'Each was confirmed in a scratch worktree (existing suite passes with the change, demonstration fails with it and passes without it). '
 '`tools/seed_matrix.py` applies each patch to a scratch worktree of /repo HEAD and runs the quick checks against it (`hv check --repo`).','',
 '| seeded change | property | result | first failing obligation |','|---|---|---|---|']
for r in rows: out.append('| %s | %s | %s | `%s` |'%r)
open('/verif/seeded/MATRIX.md','w').write('\n'.join(out)+'\n')
print('\n'.join('%-50s %-6s %s'%(r[0],r[1],r[2]) for r in rows))
