#!/usr/bin/env python3
"""Regenerates /verif/MANIFEST.json from the table below (kept in one place so
that claimed checks and the not_applicable list never drift apart)."""
import json, os, subprocess

HERE = os.path.dirname(os.path.dirname(os.path.abspath(__file__)))

ALL = ["C%02d" % i for i in range(1, 21)]

# property -> (level text, level note, design ref)
CLAIMED = {
    "C10": (
        "Partial proof, scoped to the registry. Registry.add/Remove/get/getByID/GetPID, Context.GetPID and Engine.SpawnProc are verified from go/ssa in lock-invariant mode: every access to Registry.lookup happens under r.mu (write accesses under the write lock), and every critical section is one atomic transition of the abstract map id -> Processer, relative to the map as it was when the lock was acquired (all other threads' effects are havoced at Lock and at every call of a locked method). add: if the id is present the whole map is unchanged, nothing is started (the effect log holds exactly one Broadcast(ActorDuplicateIdEvent{PID}) and no ProcStart, hence no Producer call); otherwise exactly that id is inserted with the given processer, every other entry unchanged, and exactly one proc.Start() follows the unlock (log = [RegAdd, ProcStart]). Remove deletes exactly pid.ID; get/getByID return the registered processer or nil; GetPID/Context.GetPID look up kind+'/'+id resp. id and return that processer's PID or nil; SpawnProc has exactly the effects of add and returns the processer's PID. 'Exactly one of several concurrent spawns wins' follows from add's check-and-insert being one critical section (mutual exclusion assumed of sync.RWMutex). NOT covered: Engine.Spawn/newProcess (option handling, random id), that cleanup/Response.Result call Remove (C07/C11), liveness.",
        "Assumed: sync.RWMutex gives mutual exclusion and a total order of critical sections; Processer.PID() is a stable function of the processer (abstract contract, pidof); PID objects are not mutated after creation; abstract contract of Processer.Start (returns normally, touches engine-private state only through the API); BroadcastEvent trusted to publish exactly its argument; map builtin model; SMT solvers sound.",
        "DESIGN.md section 5 (C10) and section 10"),
    "C14": (
        "Every function of package ringbuffer (New, Push, Pop, PopN, Len) is verified from its go/ssa form against a full functional contract over the abstract queue view[k] = items[(head+1+k) % mod]: lock invariant (geometry of head/tail/len/mod), Push appends exactly one element and keeps the prefix for every buffer geometry including the grow-and-copy branch (loop invariant, unbounded), Pop/PopN return exactly the first min(n,len) elements and leave the rest shifted, report false exactly when empty, Len >= 0; all accesses to guarded fields happen under rb.mu. All obligations are discharged by SMT for all inputs, sizes and iteration counts.",
        "Assumed: a structure whose every critical section satisfies its sequential specification under one mutex is linearizable (textbook, Go memory model); integers mathematical (int64 overflow of mod*2 not modelled); gomod axioms for % on non-negative operands; SMT solvers sound.",
        "DESIGN.md section 5 (C14)"),
    "C16": (
        "Partial proof, scoped to the hand-written inbound path. streamReader.Receive is verified from its go/ssa form for every envelope the decoder can hand it (arbitrary table lengths and arbitrary, also negative, int32 indices; only 'element pointers are non-nil' is assumed of the decoder): every slice index in Receive is in range and no nil pointer is dereferenced (safety obligations bounds[...]/nil[...]/nilcall[...], all loops cut at checked invariants, unbounded in the number of envelopes and messages), and at the single call of Engine.SendLocal the target is envelope.Targets[msg.TargetIndex], the payload is the value deserialised from msg.Data under envelope.TypeNames[msg.TypeNameIndex], and the sender is envelope.Senders[msg.SenderIndex] or nil when the sender table is empty, with all three indices proved in range at that point. NOT covered (stated, not proved): the generated decoder Envelope.UnmarshalVT/Message.UnmarshalVT, the protobuf library behind Deserialize, drpc's handling of the returned error, Engine.SendLocal itself (trusted boundary).",
        "Assumed: abstract contracts of DRPCRemote_ReceiveStream.Recv (non-nil element pointers on success), Deserializer.Deserialize (returns normally; deser() names its result), Engine.SendLocal (returns normally, writes nothing Receive reads again); slog/errors calls have no effect on repository heap; integers mathematical (int32->int conversion is exact); SMT solvers sound. The pinned tree violated the index obligations; repaired by fix: commit 8fc62d5 (recorded in known_findings.json as fixed).",
        "DESIGN.md section 5 (C16) and section 10"),
    "C20": (
        "Partial proof, scoped to the provider's member-list bookkeeping. Verified from go/ssa for all member sets and arguments: MemberSet.GetByHost returns nil exactly when no member has that host and otherwise a member of the set with that host (map-iteration invariant over the ghost visited set, unbounded); Contains/Add/Remove are exact set operations keyed by Member.ID that leave every other entry untouched; SelfManaged.removeMember never panics, changes nothing for nil or a non-member, and otherwise removes exactly that member; SelfManaged.addMembers adds every listed member and keeps every existing entry (loop invariant, unbounded); the representation invariant 'every entry is a non-nil member stored under its own ID' is preserved. NOT covered (stated, not proved): the dispatch in SelfManaged.Receive (Handshake reply to c.Sender(), the GetByHost->removeMember glue in the memberLeave case), sendMembersToAgent (trusted: does not change the member set), handleEventStream, mDNS discovery and the pinger.",
        "Assumed: sendMembersToAgent does not modify the member set and returns normally (trusted contract); map builtin model (dom/val/card arrays, delete/insert/lookup, range = pick any unvisited key); integers mathematical; SMT solvers sound. The pinned tree violated requires[C20.contains.nonnil] in removeMember (nil from GetByHost passed to Contains); repaired by fix: commit 624b4e2 (recorded in known_findings.json as fixed).",
        "DESIGN.md section 5 (C20) and section 10"),
}

NOT_APPLICABLE = {
}

PENDING_REASON = "not claimed in this revision: the contracts planned in DESIGN.md section 5 for this property are not written/discharged yet, so no check is registered and nothing is asserted about it (DESIGN.md section 10 lists what is and is not built)"


def main():
    checks = []
    for pid in ALL:
        if pid not in CLAIMED:
            continue
        text, note, ref = CLAIMED[pid]
        checks.append({
            "property_id": pid,
            "quick_cmd": "bin/hv check %s --tier quick" % pid,
            "thorough_cmd": "bin/hv check %s --tier thorough" % pid,
            "evidence_file": "/verif/evidence/%s.json" % pid,
            "replay_cmd_template": "bin/hv replay {path}",
            "engine": "hv",
            "level_claimed": {"category": "proof", "text": text, "design_ref": ref},
            "level_note": note,
            "technique": "contract-based deductive verification: weakest-precondition style VCs generated by symbolic execution of go/ssa against //@ contracts, discharged by z3/cvc5",
        })
    na = []
    for pid in ALL:
        if pid in CLAIMED:
            continue
        na.append({"property_id": pid, "reason": NOT_APPLICABLE.get(pid, PENDING_REASON)})
    hooks = subprocess.run(["git", "-C", "/repo", "log", "--format=%H %s"], capture_output=True, text=True).stdout.strip().split("\n")
    hook_commits = [l.split()[0] for l in hooks if " verif:" in l or l.split(" ", 1)[1].startswith("verif")]
    m = {
        "version": 1,
        "setup_cmd": "./build.sh",
        "hooks": {
            "guard": "verif",
            "enable": "go build tag 'verif' (-tags verif): enables only the comment-only contract files <pkg>/zz_contracts_verif.go; no executable code is guarded",
            "baseline_off_cmd": "cd /repo && GOFLAGS=-mod=mod GOPROXY=off GOSUMDB=off GOTOOLCHAIN=local go test -vet=off -count=1 -timeout 25m ./...",
            "source_commits": hook_commits,
            "add_only": True,
        },
        "engines": [{
            "name": "hv",
            "path": "/verif/hv",
            "serves_properties": sorted(CLAIMED),
            "kind_free_text": "purpose-built deductive verifier for Go: go/ssa (NaiveForm) symbolic execution with loops cut at invariants, calls replaced by callee contracts, lock-invariant and global-invariant modes, SMT-LIB2 VCs discharged by z3 5.1 / z3 4.8.12 / cvc5 1.0",
        }],
        "checks": checks,
        "not_applicable": na,
        "notes": "Contracts live as //@ comments in /repo/<pkg>/zz_contracts_verif.go (build tag verif). Exit 0 = all obligations of the property discharged (KNOWN-FINDING lines for recorded defects), exit 1 = VIOLATION lines, exit 2 = tool/contract problem (UNDECIDED/VACUOUS/SELFTEST-MISS).",
    }
    with open(os.path.join(HERE, "MANIFEST.json"), "w") as f:
        json.dump(m, f, indent=1)
    print("wrote MANIFEST.json: %d checks, %d not_applicable" % (len(checks), len(na)))


if __name__ == "__main__":
    main()
