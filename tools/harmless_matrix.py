#!/usr/bin/env python3
"""Behaviour-preserving edits proposed by independent sub-agents (harmless/<name>/patch.diff + notes.md) are applied one
at a time to a scratch worktree of /repo's HEAD; the quick checks of every property whose functions live in a touched file
are run against it (hv check --repo). Expected: exit 0 everywhere. A VIOLATION here is a false alarm of the machinery; an
UNDECIDED (exit 2) means a contract is tied to incidental syntax. Results go to harmless/<name>/result.json.
usage: harmless_matrix.py [name ...]    (import new ones first: harmless_matrix.py --import /tmp/harmout)"""
import json, os, subprocess, sys, glob, shutil, re
os.chdir('/verif')
# a check discharges every obligation of every function that lists its property, so a covering set of checks per file is enough
FILEPROPS=[('ringbuffer/',['C14']),('safemap/',['C08']),('actor/inbox.go',['C02','C01']),
 ('actor/process.go',['C04','C13','C07']),
 ('actor/engine.go',['C09','C07','C10','C11','C12']),('actor/registry.go',['C10']),
 ('actor/context.go',['C08','C10','C11','C12']),('actor/response.go',['C11']),('actor/event',['C09','C12']),
 ('actor/opts.go',['C06']),('remote/stream_reader.go',['C16']),('remote/stream_writer.go',['C15','C17']),
 ('remote/stream_router.go',['C17']),('remote/remote.go',['C17']),('remote/serialize.go',['C15','C16']),
 ('cluster/agent.go',['C18','C19']),('cluster/member_set.go',['C18','C19','C20']),('cluster/selfmanaged.go',['C20']),
 ('cluster/cluster.go',['C18','C19']),('cluster/',['C18','C19','C20']),('actor/',['C01'])]
if len(sys.argv)>2 and sys.argv[1]=='--import':
    for d in sorted(glob.glob(sys.argv[2]+'/*/*/patch.diff')):
        g,k=d.split('/')[-3],d.split('/')[-2]
        dst='harmless/%s-%s'%(g,k); os.makedirs(dst,exist_ok=True)
        shutil.copy(d,dst+'/patch.diff')
        n=os.path.dirname(d)+'/notes.md'
        if os.path.exists(n): shutil.copy(n,dst+'/notes.md')
    sys.exit(0)
WT='/tmp/harmlessmatrix_wt'
subprocess.run(['git','-C','/repo','worktree','remove','--force',WT],capture_output=True)
subprocess.run(['git','-C','/repo','worktree','add','--detach',WT,'HEAD'],check=True,capture_output=True)
names = sys.argv[1:] or sorted(os.path.basename(d) for d in glob.glob('harmless/*') if os.path.isdir(d))
try:
    for n in names:
        d='harmless/'+n
        patch=os.path.abspath(d+'/patch.diff')
        files=re.findall(r'^\+\+\+ b/(\S+)',open(patch).read(),re.M)
        props=[]
        for f in files:
            for pre,ps in FILEPROPS:
                if f.startswith(pre):
                    props+= [p for p in ps if p not in props]; break
        r=subprocess.run(['git','-C',WT,'apply','--check',patch],capture_output=True,text=True)
        if r.returncode!=0:
            print('%-10s patch does not apply'%n, flush=True); continue
        subprocess.run(['git','-C',WT,'apply',patch],check=True)
        res={}
        try:
            for p in props:
                pr=subprocess.run(['bin/hv','check',p,'--tier','quick','--no-evidence','--repo',WT],capture_output=True,text=True)
                out=pr.stdout
                res[p]={'exit':pr.returncode,'violations':[l[:300] for l in out.split('\n') if l.startswith('VIOLATION')],
                        'failed':[l[:300] for l in out.split('\n') if l.startswith('FAILED-OBLIGATION')][:6],
                        'undecided':[l[:300] for l in out.split('\n') if l.startswith(('UNDECIDED','VACUOUS','TOOL-ERROR','hv: error'))][:6]}
        finally:
            subprocess.run(['git','-C',WT,'checkout','--','.'],check=True)
            subprocess.run(['git','-C',WT,'clean','-fdq'],check=True)
        json.dump({'files':files,'checks':res,'repo_commit':subprocess.run(['git','-C','/repo','rev-parse','--short','HEAD'],capture_output=True,text=True).stdout.strip()},open(d+'/result.json','w'),indent=1)
        verdict='silent' if all(v['exit']==0 for v in res.values()) else ('FALSE ALARM' if any(v['violations'] for v in res.values()) else 'undecided')
        print('%-10s %-12s %s  %s'%(n,verdict,' '.join('%s=%d'%(p,v['exit']) for p,v in res.items()),','.join(files)), flush=True)
finally:
    subprocess.run(['git','-C','/repo','worktree','remove','--force',WT],capture_output=True)
