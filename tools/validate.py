#!/usr/bin/env python3
"""Validates MANIFEST.json and evidence/*.json against the given schemas (run with python3-vt)."""
import json, glob, sys, jsonschema
ok = True
try:
    jsonschema.validate(json.load(open('/verif/MANIFEST.json')), json.load(open('/root/.vp/MANIFEST.schema.json')))
    print('MANIFEST ok')
except Exception as e:
    ok = False; print('MANIFEST INVALID', str(e)[:500])
sch = json.load(open('/root/.vp/EVIDENCE.schema.json'))
for f in sorted(glob.glob('/verif/evidence/*.json')):
    try:
        jsonschema.validate(json.load(open(f)), sch); print(f, 'ok')
    except Exception as e:
        ok = False; print(f, 'INVALID', str(e)[:500])
sys.exit(0 if ok else 1)
