package cluster

import (
	"testing"
	"time"

	"github.com/anthdm/hollywood/actor"
)

// C20: an unreachable report for an address that is not a member changes
// nothing and the provider keeps running with its member list intact.
func TestDRV_C20_LeaveForNonMemberKeepsProviderRunning(t *testing.T) {
	e, err := actor.NewEngine(actor.NewEngineConfig())
	if err != nil {
		t.Fatal(err)
	}
	c := &Cluster{engine: e, config: Config{id: "self", listenAddr: "127.0.0.1:1"}}
	s := &SelfManaged{cluster: c, members: NewMemberSet(), membersAlive: NewMemberSet()}
	s.members.Add(&Member{ID: "b", Host: "127.0.0.1:2"})
	restarted := make(chan struct{}, 1)
	watcher := e.SpawnFunc(func(ctx *actor.Context) {
		if _, ok := ctx.Message().(actor.ActorRestartedEvent); ok {
			select {
			case restarted <- struct{}{}:
			default:
			}
		}
	}, "drv-watch")
	e.Subscribe(watcher)
	time.Sleep(20 * time.Millisecond)
	pid := e.SpawnFunc(func(ctx *actor.Context) {
		switch ctx.Message().(type) {
		case memberLeave:
			s.Receive(ctx)
		}
	}, "drv-provider", actor.WithRestartDelay(time.Millisecond))
	e.Send(pid, memberLeave{ListenAddr: "10.0.0.9:9"})
	select {
	case <-restarted:
		t.Fatalf("memberLeave for a non-member address crashed the provider actor (it was restarted)")
	case <-time.After(300 * time.Millisecond):
	}
	if s.members.Len() != 1 {
		t.Fatalf("member list changed: %d members", s.members.Len())
	}
}
