package actor

// Replays of the recorded known findings against the real code. Injected with
// `go test -overlay` (nothing is written into the repository). Every test
// asserts the PROPERTY; a test that fails demonstrates the defect.

import (
	"context"
	"fmt"
	"strings"
	"sync"
	"testing"
	"time"
)

type kfRecorder struct {
	mu    sync.Mutex
	trace []string
	block chan struct{}
	seen  chan string
}

func newKFRecorder() *kfRecorder {
	return &kfRecorder{block: make(chan struct{}), seen: make(chan string, 64)}
}

func (r *kfRecorder) add(s string) {
	r.mu.Lock()
	r.trace = append(r.trace, s)
	r.mu.Unlock()
	select {
	case r.seen <- s:
	default:
	}
}

func (r *kfRecorder) String() string {
	r.mu.Lock()
	defer r.mu.Unlock()
	return strings.Join(r.trace, " ")
}

func (r *kfRecorder) count(s string) int {
	r.mu.Lock()
	defer r.mu.Unlock()
	n := 0
	for _, t := range r.trace {
		if t == s {
			n++
		}
	}
	return n
}

// one receiver value per incarnation; all share the recorder
type kfActor struct {
	r   *kfRecorder
	inc int
}

func (a *kfActor) Receive(c *Context) {
	switch m := c.Message().(type) {
	case Initialized:
		a.r.add(fmt.Sprintf("I%d", a.inc))
	case Started:
		a.r.add(fmt.Sprintf("S%d", a.inc))
	case Stopped:
		a.r.add(fmt.Sprintf("X%d", a.inc))
	case string:
		a.r.add(fmt.Sprintf("%s@%d", m, a.inc))
		switch m {
		case "block":
			<-a.r.block
		case "crash":
			panic("boom")
		}
	}
}

func kfProducer(r *kfRecorder) Producer {
	n := 0
	return func() Receiver {
		n++
		return &kfActor{r: r, inc: n}
	}
}

func kfWait(t *testing.T, r *kfRecorder, what string) {
	t.Helper()
	deadline := time.After(3 * time.Second)
	for {
		if r.count(what) > 0 {
			return
		}
		select {
		case <-r.seen:
		case <-deadline:
			t.Fatalf("timeout waiting for %s; trace: %s", what, r)
		}
	}
}

// C04: each incarnation receives Stopped exactly once.
func TestKF_C04_DoubleStoppedWhenMaxRestartsExceeded(t *testing.T) {
	e, _ := NewEngine(NewEngineConfig())
	r := newKFRecorder()
	pid := e.Spawn(kfProducer(r), "kf", WithID("double-stopped"), WithMaxRestarts(0), WithRestartDelay(time.Millisecond))
	kfWait(t, r, "S1")
	e.Send(pid, "crash")
	kfWait(t, r, "X1")
	time.Sleep(200 * time.Millisecond)
	if n := r.count("X1"); n != 1 {
		t.Fatalf("incarnation 1 received Stopped %d times; trace: %s", n, r)
	}
}

// C04/C02: nothing is delivered to an incarnation after its Stopped, and a
// stopped actor's inbox is not reopened.
func TestKF_C04_InboxReopenedAfterReplayStoppedTheActor(t *testing.T) {
	e, _ := NewEngine(NewEngineConfig())
	r := newKFRecorder()
	pid := e.Spawn(kfProducer(r), "kf", WithID("reopened"), WithMaxRestarts(3), WithRestartDelay(time.Millisecond))
	kfWait(t, r, "S1")
	proc := e.Registry.get(pid)
	e.Send(pid, "block")
	kfWait(t, r, "block@1")
	// queued behind the blocked message, popped as one batch: [crash, pill]
	e.Send(pid, "crash")
	ctx := e.Poison(pid)
	close(r.block)
	select {
	case <-ctx.Done():
	case <-time.After(3 * time.Second):
		t.Fatalf("poison context not done; trace: %s", r)
	}
	time.Sleep(100 * time.Millisecond)
	// the actor is stopped and unregistered; a message pushed into its old
	// inbox must not be delivered to the stopped incarnation
	proc.Send(pid, "late", nil)
	time.Sleep(300 * time.Millisecond)
	tr := r.String()
	if strings.Contains(tr, "late@") {
		t.Fatalf("message delivered after the final Stopped (inbox of a stopped actor was reopened); trace: %s", tr)
	}
}

// C05/C07: a crash while draining behind a graceful pill: the messages behind
// the failed one are delivered once, the failed one is not redelivered, and
// the poison context still becomes done.
func TestKF_C05_CrashWhileDrainingBehindPill(t *testing.T) {
	e, _ := NewEngine(NewEngineConfig())
	r := newKFRecorder()
	pid := e.Spawn(kfProducer(r), "kf", WithID("drain-crash"), WithMaxRestarts(3), WithRestartDelay(time.Millisecond))
	kfWait(t, r, "S1")
	e.Send(pid, "block")
	kfWait(t, r, "block@1")
	ctx := e.Poison(pid) // batch: [pill, a, crash, b]
	e.Send(pid, "a")
	e.Send(pid, "crash")
	e.Send(pid, "b")
	close(r.block)
	var done bool
	select {
	case <-ctx.Done():
		done = true
	case <-time.After(1500 * time.Millisecond):
	}
	tr := r.String()
	na := strings.Count(tr, "a@")
	nc := strings.Count(tr, "crash@")
	if !done || na != 1 || nc != 1 {
		t.Fatalf("poison context done=%v, 'a' delivered %d times, failing message delivered %d times; trace: %s", done, na, nc, tr)
	}
}

// C07: every Poison/Stop caller is signalled, also when the same actor is
// poisoned twice.
func TestKF_C07_SecondPillInBatchNeverCancelled(t *testing.T) {
	e, _ := NewEngine(NewEngineConfig())
	r := newKFRecorder()
	pid := e.Spawn(kfProducer(r), "kf", WithID("two-pills"), WithRestartDelay(time.Millisecond))
	kfWait(t, r, "S1")
	e.Send(pid, "block")
	kfWait(t, r, "block@1")
	ctx1 := e.Poison(pid)
	ctx2 := e.Poison(pid)
	close(r.block)
	wait := func(c context.Context) bool {
		select {
		case <-c.Done():
			return true
		case <-time.After(1500 * time.Millisecond):
			return false
		}
	}
	d1, d2 := wait(ctx1), wait(ctx2)
	if !d1 || !d2 {
		t.Fatalf("first poison context done=%v, second done=%v; trace: %s", d1, d2, r)
	}
}

// C12: after Unsubscribe for a PID, identified by address and id, that actor
// receives no further events; subscribing the same PID twice does not
// duplicate deliveries.
func TestKF_C12_UnsubscribeByEqualPIDInDistinctObject(t *testing.T) {
	e, _ := NewEngine(NewEngineConfig())
	var mu sync.Mutex
	got := 0
	pid := e.SpawnFunc(func(c *Context) {
		if _, ok := c.Message().(DeadLetterEvent); ok {
			mu.Lock()
			got++
			mu.Unlock()
		}
	}, "kf-sub", WithID("1"))
	same := NewPID(pid.Address, pid.ID) // equal by address and id, different object
	e.Subscribe(pid)
	e.Subscribe(same)
	time.Sleep(50 * time.Millisecond)
	e.Send(NewPID(LocalLookupAddr, "nobody/1"), "x") // one dead letter
	time.Sleep(100 * time.Millisecond)
	mu.Lock()
	first := got
	got = 0
	mu.Unlock()
	e.Unsubscribe(same)
	e.Unsubscribe(NewPID(pid.Address, pid.ID))
	time.Sleep(50 * time.Millisecond)
	e.Send(NewPID(LocalLookupAddr, "nobody/2"), "y")
	time.Sleep(100 * time.Millisecond)
	mu.Lock()
	second := got
	mu.Unlock()
	if first != 1 || second != 0 {
		t.Fatalf("event delivered %d times after subscribing the same PID twice (want 1), %d times after unsubscribing it by value (want 0)", first, second)
	}
}

// C09: a finite number of sends produces a finite number of events, also when
// a subscriber has stopped without unsubscribing.
func TestKF_C09_DeadSubscriberFeedbackLoop(t *testing.T) {
	e, _ := NewEngine(NewEngineConfig())
	var mu sync.Mutex
	seen := 0
	counter := e.SpawnFunc(func(c *Context) {
		if _, ok := c.Message().(DeadLetterEvent); ok {
			mu.Lock()
			seen++
			mu.Unlock()
		}
	}, "kf-counter", WithID("1"))
	gone := e.SpawnFunc(func(c *Context) {}, "kf-gone", WithID("1"))
	e.Subscribe(counter)
	e.Subscribe(gone)
	time.Sleep(50 * time.Millisecond)
	<-e.Poison(gone).Done() // stops without unsubscribing
	time.Sleep(50 * time.Millisecond)
	mu.Lock()
	seen = 0
	mu.Unlock()
	e.Send(NewPID(LocalLookupAddr, "nobody/1"), "x") // ONE undeliverable message
	time.Sleep(200 * time.Millisecond)
	mu.Lock()
	n := seen
	mu.Unlock()
	e.Unsubscribe(gone) // stop the storm
	if n > 50 {
		t.Fatalf("one undeliverable message produced %d DeadLetterEvents within 200ms (and counting)", n)
	}
}
