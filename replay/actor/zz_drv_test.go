package actor

// Scenario replays for obligations that guard repaired defects (used when one
// of those obligations fails again on a changed tree). Each test asserts the
// property; FAIL = the defect is present in the tree under test.

import (
	"fmt"
	"os"
	"os/exec"
	"strings"
	"sync"
	"testing"
	"time"
)

// C06: exhausting the restart budget stops the actor; the hosting process
// keeps running. Runs the scenario in a child process so that a crash of the
// whole process is observable.
func TestDRV_C06_BudgetExhaustedKeepsProcessAlive(t *testing.T) {
	if os.Getenv("HV_REPLAY_CHILD") == "1" {
		e, _ := NewEngine(NewEngineConfig())
		pid := e.SpawnFunc(func(c *Context) {
			if s, ok := c.Message().(string); ok && s == "crash" {
				panic("boom")
			}
		}, "drv", WithID("c06"), WithMaxRestarts(0), WithRestartDelay(time.Millisecond))
		e.Send(pid, "crash")
		time.Sleep(500 * time.Millisecond)
		fmt.Println("CHILD-SURVIVED")
		return
	}
	cmd := exec.Command(os.Args[0], "-test.run=^TestDRV_C06_BudgetExhaustedKeepsProcessAlive$", "-test.count=1")
	cmd.Env = append(os.Environ(), "HV_REPLAY_CHILD=1")
	out, err := cmd.CombinedOutput()
	if err != nil || !strings.Contains(string(out), "CHILD-SURVIVED") {
		s := string(out)
		if i := strings.Index(s, "panic:"); i >= 0 {
			s = s[i:]
		}
		if len(s) > 600 {
			s = s[:600]
		}
		t.Fatalf("WithMaxRestarts(0) + one panicking message: the hosting process died (%v): %s", err, s)
	}
}

// C13: every message a receiver sees - Stopped on the crash path included -
// passes through the middleware chain.
func TestDRV_C13_StoppedAfterCrashGoesThroughMiddleware(t *testing.T) {
	e, _ := NewEngine(NewEngineConfig())
	var mu sync.Mutex
	var trace []string
	add := func(s string) { mu.Lock(); trace = append(trace, s); mu.Unlock() }
	mw := func(next ReceiveFunc) ReceiveFunc {
		return func(c *Context) {
			add(fmt.Sprintf("mw(%T)", c.Message()))
			next(c)
		}
	}
	pid := e.SpawnFunc(func(c *Context) {
		add(fmt.Sprintf("rcv(%T)", c.Message()))
		if s, ok := c.Message().(string); ok && s == "crash" {
			panic("boom")
		}
	}, "drv", WithID("c13"), WithMiddleware(mw), WithMaxRestarts(2), WithRestartDelay(time.Millisecond))
	time.Sleep(50 * time.Millisecond)
	e.Send(pid, "crash")
	time.Sleep(300 * time.Millisecond)
	mu.Lock()
	defer mu.Unlock()
	for i, s := range trace {
		if strings.HasPrefix(s, "rcv(") {
			want := "mw(" + strings.TrimPrefix(s, "rcv(")
			if i == 0 || trace[i-1] != want {
				t.Fatalf("delivery %s did not pass through the middleware; trace: %s", s, strings.Join(trace, " "))
			}
		}
	}
}
