package remote

import (
	"context"
	"testing"

	"github.com/anthdm/hollywood/actor"
	"storj.io/drpc"
)

// An in-memory DRPCRemote_ReceiveStream; every envelope goes through the real
// wire encoder/decoder.
type drvStream struct{ wire [][]byte }

func (s *drvStream) Context() context.Context                  { return context.Background() }
func (s *drvStream) MsgSend(drpc.Message, drpc.Encoding) error { return nil }
func (s *drvStream) MsgRecv(drpc.Message, drpc.Encoding) error { return context.Canceled }
func (s *drvStream) CloseSend() error                          { return nil }
func (s *drvStream) Close() error                              { return nil }
func (s *drvStream) Send(*Envelope) error                      { return nil }
func (s *drvStream) Recv() (*Envelope, error) {
	if len(s.wire) == 0 {
		return nil, context.Canceled
	}
	b := s.wire[0]
	s.wire = s.wire[1:]
	env := new(Envelope)
	if err := env.UnmarshalVT(b); err != nil {
		return nil, err
	}
	return env, nil
}

// C16: no inbound envelope can crash the node: indices out of range or
// negative, empty tables.
func TestDRV_C16_BadIndicesDoNotPanic(t *testing.T) {
	e, err := actor.NewEngine(actor.NewEngineConfig())
	if err != nil {
		t.Fatal(err)
	}
	tname := ProtoSerializer{}.TypeName(&TestMessage{})
	target := actor.NewPID(e.Address(), "nobody/1")
	cases := []*Envelope{
		{Messages: []*Message{{TypeNameIndex: 3}}},
		{TypeNames: []string{tname}, Targets: []*actor.PID{target}, Messages: []*Message{{TargetIndex: 1}}},
		{TypeNames: []string{tname}, Targets: []*actor.PID{target}, Messages: []*Message{{TargetIndex: -1}}},
		{TypeNames: []string{tname}, Targets: []*actor.PID{target}, Senders: []*actor.PID{target}, Messages: []*Message{{SenderIndex: 1}}},
		{TypeNames: []string{tname}, Targets: []*actor.PID{target}, Messages: []*Message{{TypeNameIndex: 1}}},
		{TypeNames: []string{tname}, Messages: []*Message{{TargetIndex: 0}}},
	}
	for i, env := range cases {
		b, err := env.MarshalVT()
		if err != nil {
			t.Fatal(err)
		}
		func() {
			defer func() {
				if p := recover(); p != nil {
					t.Fatalf("envelope %d: streamReader.Receive panicked: %v", i, p)
				}
			}()
			r := newStreamReader(&Remote{engine: e})
			_ = r.Receive(&drvStream{wire: [][]byte{b}})
		}()
	}
}
