package remote

// Replays of the recorded C15 findings against the real writer and reader:
// streamWriter.Invoke encodes a batch into an Envelope handed to a capturing
// stream; the envelope goes through the real wire encoder/decoder and is fed
// to streamReader.Receive, which delivers to recording actors. Every test
// asserts the PROPERTY; FAIL = the defect is present.

import (
	"context"
	"fmt"
	"net"
	"os"
	"os/exec"
	"strings"
	"sync"
	"testing"
	"time"

	"github.com/anthdm/hollywood/actor"
	"storj.io/drpc"
)

type kfCapture struct{ envs []*Envelope }

func (s *kfCapture) Context() context.Context                  { return context.Background() }
func (s *kfCapture) MsgSend(drpc.Message, drpc.Encoding) error { return nil }
func (s *kfCapture) MsgRecv(drpc.Message, drpc.Encoding) error { return context.Canceled }
func (s *kfCapture) CloseSend() error                          { return nil }
func (s *kfCapture) Close() error                              { return nil }
func (s *kfCapture) Send(e *Envelope) error                    { s.envs = append(s.envs, e); return nil }
func (s *kfCapture) Recv() (*Envelope, error)                  { return nil, context.Canceled }

type kfConn struct{ net.Conn }

func (kfConn) SetDeadline(time.Time) error { return nil }

type kfGot struct {
	to, from string
	msg      string
}

// kfRoundTrip: writer batch -> wire -> reader -> what each local actor received.
func kfRoundTrip(t *testing.T, batch []*streamDeliver, actors []string) []kfGot {
	t.Helper()
	e, err := actor.NewEngine(actor.NewEngineConfig())
	if err != nil {
		t.Fatal(err)
	}
	var mu sync.Mutex
	var got []kfGot
	for _, id := range actors {
		id := id
		e.SpawnFunc(func(c *actor.Context) {
			if m, ok := c.Message().(*TestMessage); ok {
				from := "<nil>"
				if c.Sender() != nil {
					from = c.Sender().Address + "|" + c.Sender().ID
				}
				mu.Lock()
				got = append(got, kfGot{to: id, from: from, msg: string(m.Data)})
				mu.Unlock()
			}
		}, "kf", actor.WithID(id))
	}
	capt := &kfCapture{}
	w := &streamWriter{stream: capt, serializer: ProtoSerializer{}, rawconn: kfConn{}, engine: e}
	var envs []actor.Envelope
	for _, d := range batch {
		envs = append(envs, actor.Envelope{Msg: d})
	}
	w.Invoke(envs)
	if len(capt.envs) != 1 {
		t.Fatalf("writer sent %d envelopes", len(capt.envs))
	}
	b, err := capt.envs[0].MarshalVT()
	if err != nil {
		t.Fatal(err)
	}
	r := newStreamReader(&Remote{engine: e})
	_ = r.Receive(&drvStream{wire: [][]byte{b}})
	time.Sleep(150 * time.Millisecond)
	mu.Lock()
	defer mu.Unlock()
	return append([]kfGot(nil), got...)
}

func kfTarget(id string) *actor.PID { return actor.NewPID(actor.LocalLookupAddr, "kf/"+id) }

// C15: a message sent without a sender arrives without one.
func TestKF_C15_NilSenderInMixedBatch(t *testing.T) {
	s1 := actor.NewPID("host:1", "x/s1")
	got := kfRoundTrip(t, []*streamDeliver{
		{target: kfTarget("a"), sender: s1, msg: &TestMessage{Data: []byte("m1")}},
		{target: kfTarget("b"), sender: nil, msg: &TestMessage{Data: []byte("m2")}},
	}, []string{"a", "b"})
	for _, g := range got {
		if g.to == "b" && g.from != "<nil>" {
			t.Fatalf("message sent without a sender arrived from %s (all deliveries: %v)", g.from, got)
		}
	}
	if len(got) != 2 {
		t.Fatalf("expected 2 deliveries, got %v", got)
	}
}

// C15: each message arrives with the sender it was given, also when two
// senders differ only in how address and id split.
func TestKF_C15_SendersDifferingOnlyInAddressIDSplit(t *testing.T) {
	s1 := actor.NewPID("h:40", "00/x")
	s2 := actor.NewPID("h:4000", "/x")
	got := kfRoundTrip(t, []*streamDeliver{
		{target: kfTarget("a"), sender: s1, msg: &TestMessage{Data: []byte("m1")}},
		{target: kfTarget("a"), sender: s2, msg: &TestMessage{Data: []byte("m2")}},
	}, []string{"a"})
	want := map[string]string{"m1": "h:40|00/x", "m2": "h:4000|/x"}
	for _, g := range got {
		if want[g.msg] != g.from {
			t.Fatalf("message %s arrived from %s, want %s (all deliveries: %v)", g.msg, g.from, want[g.msg], got)
		}
	}
	if len(got) != 2 {
		t.Fatalf("expected 2 deliveries, got %v", got)
	}
}

type kfUnserialisable struct{ *TestMessage }

// C15: a message that cannot be serialised is dropped on its own: the node
// keeps running. (Run in a child process: the writer has no recover.)
func TestKF_C15_UnserialisablePayloadKeepsNodeRunning(t *testing.T) {
	if os.Getenv("HV_REPLAY_CHILD") == "1" {
		got := kfRoundTrip(t, []*streamDeliver{
			{target: kfTarget("a"), msg: &TestMessage{Data: []byte("m1")}},
			{target: kfTarget("b"), msg: "not a protobuf message"},
			{target: kfTarget("a"), msg: &TestMessage{Data: []byte("m3")}},
		}, []string{"a", "b"})
		fmt.Printf("CHILD-SURVIVED %v\n", got)
		return
	}
	cmd := exec.Command(os.Args[0], "-test.run=^TestKF_C15_UnserialisablePayloadKeepsNodeRunning$", "-test.count=1")
	cmd.Env = append(os.Environ(), "HV_REPLAY_CHILD=1")
	out, err := cmd.CombinedOutput()
	if err != nil || !strings.Contains(string(out), "CHILD-SURVIVED") {
		s := string(out)
		if i := strings.Index(s, "panic:"); i >= 0 {
			s = s[i:]
		}
		if len(s) > 500 {
			s = s[:500]
		}
		t.Fatalf("a batch with one non-protobuf payload took the writer down (%v): %s", err, s)
	}
}

// C15: a message that cannot be serialised is dropped on its own and nothing
// is delivered in its place. (A PID whose Address is not valid UTF-8 makes
// proto.Marshal fail.)
func TestDRV_C15_SerializeErrorLeavesNoPlaceholder(t *testing.T) {
	bad := &actor.PID{Address: "\xff\xfe", ID: "x"}
	got := kfRoundTrip(t, []*streamDeliver{
		{target: kfTarget("a"), msg: &TestMessage{Data: []byte("m1")}},
		{target: kfTarget("b"), msg: bad},
		{target: kfTarget("a"), msg: &TestMessage{Data: []byte("m3")}},
	}, []string{"a", "b"})
	if len(got) != 2 {
		t.Fatalf("expected exactly the two serialisable messages to arrive, got %v", got)
	}
	for _, g := range got {
		if g.to != "a" || (g.msg != "m1" && g.msg != "m3") {
			t.Fatalf("unexpected delivery %v (all: %v)", g, got)
		}
	}
}
